"""vlib — shared machinery of /verif/bin/check.

Pipeline for every property (DESIGN.md 2.1):
  1. regenerate coq/gen/*.v from /repo with the translator (go2coq)
  2. build the Coq closure of Props/<id>.v (full .vo, never -vos), hygiene gate,
     re-run coqc on the Props file to capture Print Assumptions
  3. build and run the Go harness against /repo's working tree (-tags verif)
  4. compare through the extracted OCaml oracle
  5. on any break: search for a concrete failing input; VIOLATION with replay
  6. known findings
  7. evidence/<id>.json
"""
import fcntl
import glob
import hashlib
import json
import os
import re
import shutil
import subprocess
import sys
import time

VERIF = os.path.dirname(os.path.dirname(os.path.abspath(__file__)))
REPO = os.environ.get("VERIF_REPO", "/repo")
BUILD = os.path.join(VERIF, ".build")
COQ = os.path.join(VERIF, "coq")
GEN = os.path.join(COQ, "gen")
GO_TOOLCHAIN = "/root/go/pkg/mod/golang.org/toolchain@v0.0.1-go1.25.4.linux-amd64/bin"

FORBIDDEN = re.compile(
    r"\b(Admitted|admit|Axiom|Axioms|Parameter|Parameters|Conjecture|Hypothesis|Variable|Variables|"
    r"Admit Obligations|bypass_check|native_compute)\b|Unset Guard|Unset Positivity|Unset Universe|type-in-type|impredicative-set"
)


def go_env():
    env = dict(os.environ)
    env["PATH"] = GO_TOOLCHAIN + ":" + env.get("PATH", "")
    env.update(GOTOOLCHAIN="local", GOFLAGS="-mod=mod", GOPROXY="off", GOSUMDB="off")
    env.setdefault("GOCACHE", os.path.join(BUILD, "gocache"))
    return env


def run(cmd, cwd=None, env=None, timeout=1800, check=False, stdin=None):
    p = subprocess.run(cmd, cwd=cwd, env=env, stdout=subprocess.PIPE, stderr=subprocess.STDOUT,
                       timeout=timeout, text=True, input=stdin)
    if check and p.returncode != 0:
        raise RuntimeError("command failed: %s\n%s" % (" ".join(cmd), p.stdout[-4000:]))
    return p.returncode, p.stdout


class Lock:
    """Serialises builds when several checks run at once."""

    def __enter__(self):
        os.makedirs(BUILD, exist_ok=True)
        self.f = open(os.path.join(BUILD, "lock"), "w")
        fcntl.flock(self.f, fcntl.LOCK_EX)
        return self

    def __exit__(self, *a):
        fcntl.flock(self.f, fcntl.LOCK_UN)
        self.f.close()


def sha_files(paths):
    h = hashlib.sha256()
    for p in sorted(paths):
        h.update(p.encode())
        with open(p, "rb") as f:
            h.update(f.read())
    return h.hexdigest()


def stamp_ok(name, digest):
    p = os.path.join(BUILD, "stamp." + name)
    return os.path.exists(p) and open(p).read() == digest


def stamp_set(name, digest):
    with open(os.path.join(BUILD, "stamp." + name), "w") as f:
        f.write(digest)


# ---------------------------------------------------------------- translator
def translate():
    """Build go2coq if needed and regenerate coq/gen from REPO. Returns status dict."""
    os.makedirs(GEN, exist_ok=True)
    srcs = glob.glob(os.path.join(VERIF, "translator", "*.go")) + [os.path.join(VERIF, "translator", "go.mod")]
    d = sha_files(srcs)
    exe = os.path.join(BUILD, "go2coq")
    if not (stamp_ok("go2coq", d) and os.path.exists(exe)):
        run(["go", "build", "-o", exe, "."], cwd=os.path.join(VERIF, "translator"), env=go_env(), check=True)
        stamp_set("go2coq", d)
    rc, out = run([exe, "-repo", REPO, "-out", GEN])
    # gen/GenNatsErrors.v is written by C15's check from the values the real NATS client returns on that run; the other
    # checks only need the file to exist (coqdep walks the whole _CoqProject): a fresh tree gets an empty table
    ne = os.path.join(GEN, "GenNatsErrors.v")
    if not os.path.exists(ne):
        with open(ne, "w") as f:
            f.write("(* placeholder written by lib/vlib.py translate(): bin/check C15 replaces it with the values captured from the NATS client *)\n"
                    "From LE Require Import Base Strs Err.\nLocal Open Scope string_scope.\n"
                    "Definition nats_errors : list (string * err) := [].\n")
    st = {}
    try:
        st = json.load(open(os.path.join(GEN, "STATUS.json")))
    except Exception:
        pass
    if rc != 0:
        st["__fatal__"] = out[-2000:]
    return st


# ---------------------------------------------------------------- coq
def coq_makefile():
    mk = os.path.join(COQ, "Makefile")
    proj = os.path.join(COQ, "_CoqProject")
    if (not os.path.exists(mk)) or os.path.getmtime(mk) < os.path.getmtime(proj):
        run(["coq_makefile", "-f", "_CoqProject", "-o", "Makefile"], cwd=COQ, check=True)


def hygiene():
    """No axioms / admits / disabled checks anywhere in the development (comments stripped)."""
    bad = []
    for p in glob.glob(os.path.join(COQ, "**", "*.v"), recursive=True):
        txt = open(p).read()
        txt = strip_comments(txt)
        for i, line in enumerate(txt.split("\n"), 1):
            m = FORBIDDEN.search(line)
            if m:
                # `Variable`/`Hypothesis` are fine inside a Section; we simply do not use them at all
                bad.append("%s:%d: %s" % (os.path.relpath(p, VERIF), i, m.group(0)))
    return bad


def strip_comments(txt):
    out = []
    depth = 0
    i = 0
    n = len(txt)
    instr = False
    while i < n:
        if depth == 0 and txt[i] == '"':
            instr = not instr
            out.append(txt[i]); i += 1; continue
        if not instr and txt.startswith("(*", i):
            depth += 1; i += 2; continue
        if not instr and depth > 0 and txt.startswith("*)", i):
            depth -= 1; i += 2; continue
        if depth == 0:
            out.append(txt[i])
        elif txt[i] == "\n":
            out.append("\n")
        i += 1
    return "".join(out)


def coq_build(target, timeout=3000):
    """make the .vo of `target` (path relative to coq/). Returns (ok, log)."""
    coq_makefile()
    vo = target[:-2] + ".vo"
    rc, out = run(["make", "-j16", vo], cwd=COQ, timeout=timeout)
    return rc == 0, out


def coqchk(target, timeout=3000):
    """Independent re-check (coqchk) of a compiled Props file and everything it depends on, on a copy of the compiled tree
    (coqchk may touch the .vo files it loads). Returns (ok, axioms_text, seconds)."""
    import shutil, time as _t
    mod = "LE." + target[:-2].replace("/", ".")
    work = os.path.join(BUILD, "coqchk.%d" % os.getpid())
    shutil.rmtree(work, ignore_errors=True)
    shutil.copytree(COQ, work, ignore=shutil.ignore_patterns("*.glob", "*.aux", "*.vos", "*.vok", "*.ml", "*.mli", "*.cm*", "*.o"))
    t0 = _t.time()
    rc, out = run(["coqchk", "-silent", "-o", "-Q", ".", "LE", mod], cwd=work, timeout=timeout)
    dt = _t.time() - t0
    shutil.rmtree(work, ignore_errors=True)
    m = re.search(r"\* Axioms:(.*?)\n\s*\n\* Constants/Inductives relying on type-in-type:(.*?)\n\s*\n\* Constants/Inductives relying on unsafe \(co\)fixpoints:(.*?)\n\s*\n"
                  r"\* Inductives whose positivity is assumed:(.*?)\n", out, re.S)
    if rc != 0 or not m:
        return False, "coqchk failed: " + out[-600:], dt
    parts = [" ".join(x.split()) for x in m.groups()]
    ok = all(x == "<none>" for x in parts)
    return ok, "axioms %s; type-in-type %s; unsafe fixpoints %s; assumed positivity %s" % tuple(parts), dt


def coq_props(target, timeout=1200):
    """Re-run coqc on a Props file to capture Print Assumptions. Returns (ok, {thm: assumptions}, log)."""
    rc, out = run(["coqc", "-Q", ".", "LE", target], cwd=COQ, timeout=timeout)
    thms = re.findall(r"^\s*Theorem\s+(\w+)", strip_comments(open(os.path.join(COQ, target)).read()), re.M)
    blocks = []
    cur = None
    for line in out.split("\n"):
        if line.startswith("Closed under the global context"):
            blocks.append("closed under the global context")
            cur = None
        elif line.startswith("Axioms:"):
            cur = []
            blocks.append(cur)
        elif cur is not None and line.strip():
            cur.append(line.strip())
    ass = {}
    for i, t in enumerate(thms):
        if i < len(blocks):
            b = blocks[i]
            ass[t] = b if isinstance(b, str) else "axioms: " + " ".join(b)
        else:
            ass[t] = "?"
    return rc == 0, ass, out


def coq_closure(target):
    """.v files of the development (transitively) required by target."""
    seen = []
    todo = [target]
    index = {}
    for p in glob.glob(os.path.join(COQ, "**", "*.v"), recursive=True):
        index[os.path.basename(p)[:-2]] = os.path.relpath(p, COQ)
    while todo:
        t = todo.pop()
        if t in seen:
            continue
        seen.append(t)
        try:
            txt = strip_comments(open(os.path.join(COQ, t)).read())
        except FileNotFoundError:
            continue
        for m in re.finditer(r"From\s+LE\s+Require\s+(?:Import|Export)\s+([^.]*)\.", txt):
            for name in m.group(1).split():
                name = name.split(".")[-1]
                if name in index:
                    todo.append(index[name])
    return seen


def count_proofs(files):
    n = 0
    for f in files:
        try:
            txt = strip_comments(open(os.path.join(COQ, f)).read())
        except FileNotFoundError:
            continue
        n += len(re.findall(r"\bQed\.", txt))
    return n


# ---------------------------------------------------------------- oracle
def build_oracle(flavour="full"):
    """Extract executable definitions and build an OCaml oracle.
    flavour "full": Extract.v (generated code + model + specs) -> .build/oracle/oracle
    flavour "spec": ExtractSpec.v (hand-written specs/models only) -> .build/oracle_spec/oracle"""
    vfile = "Extract.v" if flavour == "full" else "ExtractSpec.v"
    odir = os.path.join(BUILD, "oracle" if flavour == "full" else "oracle_spec")
    os.makedirs(odir, exist_ok=True)
    closure = [f for f in coq_closure(vfile) if f != vfile]
    coq_makefile()
    rc, log = run(["make", "-j16"] + [f[:-2] + ".vo" for f in closure], cwd=COQ, timeout=3000)
    if rc != 0:
        return False, log
    main = "main_full.ml" if flavour == "full" else "main_spec.ml"
    others = ["full_cmds.ml"] if flavour == "full" else []
    mls_src = ["util.ml", "spec_cmds.ml", "sim_cmds.ml"] + [o for o in others if os.path.exists(os.path.join(VERIF, "oracle", o))] + [main]
    deps = [os.path.join(COQ, f) for f in closure + [vfile]] + [os.path.join(VERIF, "oracle", m) for m in mls_src]
    d = sha_files([p for p in deps if os.path.exists(p)])
    exe = os.path.join(odir, "oracle")
    if stamp_ok("oracle_" + flavour, d) and os.path.exists(exe):
        return True, ""
    for f in glob.glob(os.path.join(odir, "*")):
        os.remove(f)
    rc, out = run(["coqc", "-Q", COQ, "LE", os.path.join(COQ, vfile)], cwd=odir)
    for junk in glob.glob(os.path.join(COQ, vfile[:-2] + ".vo")) + glob.glob(os.path.join(COQ, vfile[:-2] + ".glob")) + \
            glob.glob(os.path.join(COQ, "." + vfile[:-2] + ".aux")):
        os.remove(junk)
    if rc != 0:
        return False, out
    for m in mls_src:
        shutil.copy(os.path.join(VERIF, "oracle", m), odir)
    rc, out2 = run(["ocamlfind", "ocamlopt", "-O2", "-w", "-a", "-package", "zarith", "-linkpkg",
                    "extracted.mli", "extracted.ml"] + mls_src + ["-o", "oracle"], cwd=odir)
    if rc != 0:
        return False, out + out2
    stamp_set("oracle_" + flavour, d)
    return True, ""


def oracle(args, flavour="full", timeout=3000):
    odir = "oracle" if flavour == "full" else "oracle_spec"
    p = subprocess.run([os.path.join(BUILD, odir, "oracle")] + args, stdout=subprocess.PIPE, stderr=subprocess.PIPE,
                       timeout=timeout, text=True)
    return p.returncode, p.stdout, p.stderr


# ---------------------------------------------------------------- go harness
def go_build(pkg, out_name, race=False, test=False):
    """Build ./pkg of the harness module against REPO. Returns (ok, log, exe)."""
    hdir = os.path.join(VERIF, "harness")
    # keep go.sum in step with the repository's
    try:
        shutil.copy(os.path.join(REPO, "go.sum"), os.path.join(hdir, "go.sum"))
    except Exception:
        pass
    exe = os.path.join(BUILD, out_name)
    if test:
        cmd = ["go", "test", "-c", "-tags", "verif", "-o", exe]
    else:
        cmd = ["go", "build", "-tags", "verif", "-o", exe]
    if race:
        cmd.append("-race")
    cmd.append("./" + pkg)
    env = go_env()
    if os.environ.get("VERIF_REPO"):
        # replay against another tree: use a module file with a different replace
        pass
    rc, out = run(cmd, cwd=hdir, env=env, timeout=1800)
    return rc == 0, out, exe


# ---------------------------------------------------------------- findings / evidence
def known_findings():
    res = []
    p = os.path.join(VERIF, "known_findings.jsonl")
    if os.path.exists(p):
        for line in open(p):
            line = line.strip()
            if line and not line.startswith("#"):
                res.append(json.loads(line))
    return res


def write_evidence(pid, tier, seed, coverage, assumptions, wall, violations, level="proof"):
    os.makedirs(os.path.join(VERIF, "evidence"), exist_ok=True)
    ev = {"property_id": pid, "tier": tier, "seed": seed, "level": level, "coverage": coverage,
          "assumptions": assumptions, "wall_s": round(wall, 2), "violations": violations}
    with open(os.path.join(VERIF, "evidence", pid + ".json"), "w") as f:
        json.dump(ev, f, indent=1)
        f.write("\n")


def write_replay(pid, tag, obj):
    os.makedirs(os.path.join(VERIF, "replays"), exist_ok=True)
    h = hashlib.sha256(json.dumps(obj, sort_keys=True).encode()).hexdigest()[:10]
    p = os.path.join(VERIF, "replays", "%s-%s-%s.json" % (pid, tag, h))
    with open(p, "w") as f:
        json.dump(obj, f, indent=1)
        f.write("\n")
    return p


TRUSTED_COMMON = [
    "Coq 8.16.1 kernel (coqc); vm_compute used for finite tables and witnesses; native_compute not used",
    "translator /verif/translator (go2coq): renders the recognised Go shapes into Gallina; double-checked by running the generated function and the Go function on the same inputs",
    "extraction: ExtrOcamlBasic only (no Extract Constant/Inductive of our own); OCaml 4.13.1, zarith, /verif/oracle/*.ml glue",
    "Go toolchain 1.25.4 building /repo's working tree with -tags verif",
]
