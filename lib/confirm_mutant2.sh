#!/bin/bash
# confirm_mutant.sh <prop> <suffix: "" or "_b">  — independent confirmation of a seeded change in its scratch worktree:
#   demo passes on the unchanged code, demo fails with the patch, full existing suite passes with the patch.
# Prints a JSON summary line; leaves the worktree clean.
P=$1; S=$2
WT=/tmp/mut2/$P/wt; OUT=/tmp/mut2/$P/out
. /verif/bin/goenv.sh
export GOCACHE=/tmp/mut2/gocache
cd $WT || exit 2
git checkout -q -- . ; git clean -fdq
patch=$OUT/patch.diff; demo=$OUT/demo_test.go; meta=$OUT/meta.json
dpath=$(python3 -c "import json;print(json.load(open('$meta'))['demo_path'])")
cp $demo $WT/$dpath
pkg=./$(dirname $dpath)
pat=$(grep -oE '^func (Test[A-Za-z0-9_]+)' $demo | sed 's/func //' | paste -sd'|')
run_demo() { go test -vet=off -count=1 -timeout 10m -run "^($pat)\$" $pkg >/tmp/mut2/$P/demo$S.$1.log 2>&1; echo $?; }
d0=$(run_demo clean)
git apply $patch || { echo "{\"prop\":\"$P$S\",\"error\":\"patch does not apply\"}"; exit 1; }
d1=$(run_demo patched)
rm -f $WT/$dpath
go test -vet=off -count=1 -timeout 25m ./... >/tmp/mut2/$P/suite$S.log 2>&1; s1=$?
if [ $s1 -ne 0 ]; then go test -vet=off -count=1 -timeout 25m ./... >/tmp/mut2/$P/suite$S.2.log 2>&1; s2=$?; else s2=0; fi
git checkout -q -- . ; git clean -fdq
echo "{\"prop\":\"$P$S\",\"demo_clean_rc\":$d0,\"demo_patched_rc\":$d1,\"suite_patched_rc\":$s1,\"suite_rerun_rc\":$s2}"
