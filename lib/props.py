"""Per-property checks. Each check(tier, seed) returns an exit code after writing
evidence/<id>.json and printing VIOLATION / KNOWN-FINDING lines."""
import json
import os
import re
import time

import vlib
from vlib import BUILD, VERIF, REPO


def coq_error_excerpt(log):
    m = re.search(r'(File "[^"]+", line \d+[^\n]*\n(?:.*\n){0,12})', log)
    return (m.group(1) if m else log[-1500:]).strip()


class Result:
    def __init__(self, pid, tier, seed):
        self.pid, self.tier, self.seed = pid, tier, seed
        self.t0 = time.time()
        self.tie_broken = []      # descriptions of broken proof obligations / correspondence
        self.violations = []      # (description, replay-object) concrete failing inputs
        self.known = []           # known-finding descriptions hit
        self.coverage = {}
        self.assumptions = []

    def finish(self):
        wall = time.time() - self.t0
        nviol = 0
        rc = 0
        for desc, obj in self.violations:
            path = vlib.write_replay(self.pid, "fail", obj)
            print("VIOLATION property=%s replay=%s  %s" % (self.pid, path, desc))
            nviol += 1
            rc = 1
        if not self.violations and self.tie_broken:
            obj = {"property": self.pid, "kind": "proof-or-correspondence-broken",
                   "broken": self.tie_broken,
                   "note": "the search over the implementation found no concrete failing input; "
                           "the property is no longer shown to hold"}
            path = vlib.write_replay(self.pid, "tie", obj)
            print("VIOLATION property=%s replay=%s no-failing-input-found" % (self.pid, path))
            nviol += 1
            rc = 1
        for k in self.known:
            print("KNOWN-FINDING: property=%s %s" % (self.pid, k))
        self.coverage.setdefault("tie_broken", self.tie_broken)
        level = "proof"
        try:
            man = json.load(open(os.path.join(VERIF, "MANIFEST.json")))
            for c in man["checks"]:
                if c["property_id"] == self.pid:
                    level = c["level_claimed"]["category"]
                    if level == "other":
                        self.coverage.setdefault("explanation", c["level_claimed"]["text"])
        except Exception:
            pass
        vlib.write_evidence(self.pid, self.tier, self.seed, self.coverage, self.assumptions, wall, nviol, level=level)
        if rc == 0:
            print("OK property=%s tier=%s wall=%.1fs" % (self.pid, self.tier, wall))
        return rc


def prove(res, gen_units, props_file):
    """Steps 1-2: regenerate, build proofs, hygiene, Print Assumptions. Returns True when the
    generated units translated (so the full oracle can be built)."""
    st = vlib.translate()
    gen_ok = True
    if "__fatal__" in st:
        res.tie_broken.append("translator failed: " + st["__fatal__"])
        gen_ok = False
    for u in gen_units:
        if st.get(u) != "ok":
            res.tie_broken.append("translator: %s: %s" % (u, st.get(u, "not produced")))
            gen_ok = False
    hy = vlib.hygiene()
    if hy:
        res.tie_broken.append("hygiene gate: " + "; ".join(hy[:5]))
    ok, log = vlib.coq_build(props_file)
    thms = {}
    if not ok:
        res.tie_broken.append("coq: %s does not check: %s" % (props_file, coq_error_excerpt(log)))
    else:
        okp, thms, out = vlib.coq_props(props_file)
        if not okp:
            res.tie_broken.append("coq: %s does not check: %s" % (props_file, coq_error_excerpt(out)))
    closure = vlib.coq_closure(props_file)
    nthm = len(thms) if thms else len(re.findall(r"^\s*Theorem\s+\w+", open(os.path.join(vlib.COQ, props_file)).read(), re.M))
    nq = vlib.count_proofs(closure)
    compiled = [f for f in closure if os.path.exists(os.path.join(vlib.COQ, f[:-2] + ".vo"))
                and os.path.getmtime(os.path.join(vlib.COQ, f[:-2] + ".vo")) >= os.path.getmtime(os.path.join(vlib.COQ, f))]
    res.coverage.update({
        "obligations": nq,
        "discharged": nq if ok else max(1, vlib.count_proofs(compiled)) if nq > 1 else 0,
        "property_theorems": thms if thms else nthm,
        "proof_files": closure,
        "checker_cmd": "cd /verif/coq && coq_makefile -f _CoqProject -o Makefile && make -j16 %s.vo && coqc -Q . LE %s" % (props_file[:-2], props_file),
    })
    axioms = sorted(set(v for v in thms.values())) if thms else []
    res.coverage["trusted_base"] = list(vlib.TRUSTED_COMMON) + ["Print Assumptions: " + "; ".join("%s: %s" % kv for kv in sorted(thms.items()))]
    if ok and res.tier == "thorough":
        # thorough tier: the compiled theorems and everything they depend on are re-checked by the independent checker
        cok, ctext, dt = vlib.coqchk(props_file)
        res.coverage["coqchk"] = "%s (%.0f s)" % (ctext, dt)
        res.coverage["trusted_base"].append("coqchk -silent -o on %s: %s" % (props_file, ctext))
        if not cok:
            res.tie_broken.append("coqchk: " + ctext)
    return gen_ok


def oracles(res, gen_ok):
    """Build the oracle(s). Returns flavour to use or None."""
    if gen_ok:
        ok, log = vlib.build_oracle("full")
        if ok:
            return "full"
        res.tie_broken.append("oracle (full) does not build: " + coq_error_excerpt(log))
    ok, log = vlib.build_oracle("spec")
    if ok:
        return "spec"
    res.tie_broken.append("oracle (spec) does not build: " + log[-800:])
    return None



def sample_lines(path, k=5, step=997, maxlen=600):
    out = []
    try:
        with open(path) as f:
            for i, l in enumerate(f):
                if i % step == 0 and len(out) < k:
                    out.append(l.rstrip("\n")[:maxlen])
    except OSError:
        pass
    return out


def pure_check(pid, tier, seed, gen_units, props_file, cmd, quick_args, thorough_args, describe,
               pre_prove=None, assumptions=(), keys=None, vt=None):
    """Common flow of the properties whose code is regenerated by the translator:
    harness (Go) -> cases; prove; oracle compares Go results with the generated definitions (GEN lines)
    and with the hand-written specification (SPEC lines = concrete violations)."""
    res = Result(pid, tier, seed)
    cases = os.path.join(BUILD, "%s.%d.txt" % (pid.lower(), os.getpid()))
    mm = cases + ".mm"
    try:
        with vlib.Lock():
            if vt:
                okb, blog, exe = vlib.go_build("vt", "vt.test", test=True)
            else:
                okb, blog, exe = vlib.go_build("pure", "pure")
        if not okb:
            res.tie_broken.append("harness does not build against /repo: " + blog[-800:])
            return res.finish()

        def harness(args):
            if vt:
                env = dict(os.environ)
                env.update({"VT_OUT": cases, "VT_SEED": str(seed)})
                env.update(args)
                return vlib.run([exe, "-test.run", vt, "-test.count=1"], env=env, timeout=3000)
            return vlib.run([exe, cmd, "-seed", str(seed), "-out", cases] + args, timeout=3000)

        # a first harness run is needed before proving when generated data come from it
        deep = (tier == "thorough")
        rc, out = harness(thorough_args if deep else quick_args)
        if rc != 0:
            res.tie_broken.append("harness run failed: " + out[-800:])
            return res.finish()
        with vlib.Lock():
            if pre_prove:
                pre_prove(res, cases)
            gen_ok = prove(res, gen_units, props_file)
            flavour = oracles(res, gen_ok)
        if res.tie_broken and not deep:
            # proof or translation broken: search with the larger budget
            rc, out = harness(thorough_args)
            deep = True
        summ = {}
        if flavour:
            rc, so, se = vlib.oracle([cmd, cases, mm], flavour)
            try:
                summ = json.loads(so)
            except Exception:
                res.tie_broken.append("oracle failed: " + (so + se)[-500:])
        lines = open(mm).read().split("\n") if os.path.exists(mm) else []
        seen = set()
        for l in lines:
            tag = l.split(" ", 1)[0]
            if tag in ("SPEC", "CALLS", "NATSREP") and tag not in seen:
                seen.add(tag)
                body, _, why = l.partition(" | ")
                res.violations.append((describe(tag, why), {"property": pid, "kind": tag, "case": body.split(" ", 1)[1] if " " in body else body,
                                                            "why": why, "fields": keys,
                                                            "replay": "bin/check %s --replay <this file>" % pid}))
        nbad = sum(summ.get(k, 0) for k in summ if k.endswith("_mismatch"))
        if nbad > 0:
            first = [l for l in lines if l.split(" ", 1)[0] in ("GEN", "TEXT")][:1]
            res.tie_broken.append("correspondence: the model regenerated from the source differs from the implementation on %d cases, e.g. %s"
                                  % (nbad, first[0][:400] if first else "?"))
        res.coverage.update({
            "evaluations": summ.get("cases", 0),
            "distinct_nontrivial": len([k for k, v in summ.get("classes", {}).items() if v > 0]),
            "classes": summ.get("classes", {}),
            "oracle": flavour,
            "oracle_summary": {k: v for k, v in summ.items() if k != "classes"},
            "traces_validated_against_impl": summ.get("cases", 0),
            "exhaustive": False,
            "samples": sample_lines(cases),
        })
        res.assumptions = list(assumptions)
        return res
    finally:
        for p in (cases, mm):
            try:
                os.remove(p)
            except OSError:
                pass


# =============================================================== C16
def check_C16(tier, seed):
    def describe(tag, why):
        if tag == "SPEC":
            return "NewElection result differs from the documented rule (%s)" % why
        return "constructor contacted the provider although it rejected the configuration"
    res = pure_check("C16", tier, seed, ["GenConfig.v"], "Props/C16.v", "c16",
                     ["-n", "60000"], ["-exhaustive"], describe,
                     assumptions=["durations with |HeartbeatInterval| <= 2^61 ns (outside that range 3*H wraps in int64; witness overflow_accepts_short_ttl)",
                                  "the constructor fact ctor_validates_first is syntactic (first statement of newKVElection validates and returns the error)"],
                     keys="bucket group id ttl hb valint grace maxfail prio takeover impl_result provider_calls")
    if isinstance(res, int):
        return res
    res.coverage["rule"] = ("configurations on the boundary lattice of every rule (each duration at k*H-1, k*H, k*H+1, 0, +-1, +-1 year; "
                            "H from 1 ns to 1 year and non-positive; strings empty/non-empty; ints -2..3); quick: 60000 seeded samples, "
                            "thorough (and whenever a proof or the translation breaks): the whole lattice of 2.56 million combinations; "
                            "distinct_nontrivial = distinct outcome classes reached (accepted / rejected with each field name)")
    res.coverage["exhaustive"] = (tier == "thorough")
    return res.finish()


# =============================================================== C15
def gen_nats_errors(res, cases):
    """gen/GenNatsErrors.v: the error values captured from the real NATS client on this run."""
    items = []
    for l in open(cases):
        f = l.split()
        if f and f[0] == "N" and len(f) == 6:
            text = bytes.fromhex(f[2]).decode("latin-1") if f[2] != "-" else ""
            if f[3] != "000000":
                res.tie_broken.append("a NATS error value is not representable as plain text in the model: " + l.strip())
            if any(ord(c) < 32 or ord(c) > 126 for c in text):
                res.tie_broken.append("non-printable NATS error text: " + l.strip())
                continue
            items.append('("%s", EPlain "%s")' % (f[1], text.replace('"', '""')))
    body = ("(* GENERATED on every run by bin/check from the values the NATS client returned through the\n"
            "   library's adapter against an embedded nats-server (harness/pure c15) — do not edit. *)\n"
            "From LE Require Import Base Strs Err.\nLocal Open Scope string_scope.\n"
            "Definition nats_errors : list (string * err) :=\n  [" + ";\n   ".join(items) + "].\n")
    p = os.path.join(vlib.GEN, "GenNatsErrors.v")
    old = open(p).read() if os.path.exists(p) else None
    if old != body:
        open(p, "w").write(body)


def check_C15(tier, seed):
    def describe(tag, why):
        if tag == "NATSREP":
            return "a NATS client error carries a classified cause the model does not represent"
        return "classification not allowed by the property: " + why
    res = pure_check("C15", tier, seed, ["GenErrors.v"], "Props/C15.v", "c15",
                     ["-n", "40000"], ["-n", "600000"], describe, pre_prove=gen_nats_errors,
                     assumptions=["error values: the algebra of Err.v (plain texts, the five classified sentinels, other sentinels by text, single-%w wrapping with "
                                  "arbitrary prefix/suffix, TimeoutError/ElectionError/TokenValidationError/ValidationError with optional inner error); "
                                  "errors.Join and multiple %w are not modelled",
                                  "strings.ToLower is modelled on ASCII letters only (generated texts are ASCII plus a few lower-case UTF-8 letters)",
                                  "NATS client values are represented by their Error() text; the harness checks on every run that errors.Is "
                                  "(five sentinels) and errors.As(*TimeoutError) are all false for them",
                                  "hybrids wrapping both a transient and a permanent typed cause are left unspecified (as in the property)"],
                     keys="<serialised error value> | <Error() hex> <IsPermanentError> <IsTransientError>")
    if isinstance(res, int):
        return res
    res.coverage["rule"] = ("seeded random error values of depth <= 7 over the algebra of Err.v with pattern-bearing, mixed-case and random texts, "
                            "plus nil and the values captured from the real NATS client on this run; the Go Error() text and both classifier "
                            "results are compared with the model (msg, generated is_permanent/is_transient) and with the specification class_ok; "
                            "distinct_nontrivial = distinct (required class / observed class) combinations reached")
    return res.finish()


# =============================================================== C17
def check_C17(tier, seed):
    def describe(tag, why):
        return why
    res = pure_check("C17", tier, seed, ["GenBackoff.v"], "Props/C17.v", "c17",
                     {"VT_N": "2000"}, {"VT_N": "40000", "VT_EXHAUSTIVE": "1"}, describe, vt="TestC17$",
                     assumptions=["CalculateBackoff is modelled over exact rationals (math.Pow as exact power; NaN/Inf do not exist there: the math.IsNaN "
                                  "branch is translated to false); Go's float64 evaluation is compared with a slack of relative 2^-40 plus 2 ns",
                                  "the random draw rand.Float64() is a parameter 0 <= r < 1 of the generated function; it is not observable in Go, so the "
                                  "generated function is compared value for value only for Jitter = 0, and through the bounds otherwise",
                                  "configurations: InitialBackoff, MaxBackoff, Multiplier >= 0, 0 <= Jitter <= 1, attempt >= 0, MaxAttempts >= 0 "
                                  "(a negative MaxAttempts behaves like 0 = unbounded in the code; outside the statement)",
                                  "RetryWithBackoff: hand-written loop model retry_loop, compared with the real function under testing/synctest virtual time "
                                  "(invocation counts, result class, wait durations); the combination with a CircuitBreaker inside RetryConfig is not modelled",
                                  "oracle shortcuts for attempt > 200 (base = MaxBackoff when Multiplier >= 3/2 and Initial >= 1 ns) are part of the trusted glue"],
                     keys="B init max mult jitter attempt result | K thr cooldown n {dt fails result invoked} | R max init maxb mult jit cancel_before n {res cancel_in_wait} '|' invocations result waits")
    if isinstance(res, int):
        return res
    res.coverage["rule"] = ("B: CalculateBackoff on a lattice of configurations (Initial/Max from 0 to MaxInt64, Multiplier 0..10, Jitter 0..1) x attempt "
                            "numbers 0..MaxInt64, three draws each, plus seeded random configurations; K: random CircuitBreaker call sequences under virtual "
                            "time with waits at cooldown-1/cooldown/cooldown+1; R: RetryWithBackoff under virtual time with scripted outcomes and cancellations. "
                            "distinct_nontrivial = distinct behaviour classes reached (jitter/no-jitter/huge-attempt; breaker opened/rejected/stayed closed; "
                            "retry result kinds)")
    res.coverage["exhaustive"] = False
    return res.finish()


# =============================================================== C14
def check_C14(tier, seed):
    res = Result("C14", tier, seed)
    cases = os.path.join(BUILD, "c14.%d.txt" % os.getpid())
    mm = cases + ".mm"
    try:
        with vlib.Lock():
            okb, blog, exe = vlib.go_build("natsdiff", "natsdiff")
            gen_ok = prove(res, [], "Props/C14.v")
            flavour = oracles(res, True)
        if not okb:
            res.tie_broken.append("natsdiff does not build against /repo: " + blog[-800:])
            return res.finish()
        runs = [["-seed", str(seed), "-seqs", "150" if tier == "quick" else "1500", "-out", cases]]
        if tier == "thorough":
            runs.append(["-seed", str(seed + 1), "-seqs", "60", "-expiry", "-out", cases + ".x"])
            runs.append(["-seed", str(seed + 2), "-seqs", "400", "-nopace", "-out", cases + ".n"])
        total = {"cases": 0, "ops": 0, "classes": {}}
        summaries = []
        for args in runs:
            rc, out = vlib.run([exe] + args, timeout=3000)
            lines = out.strip().split("\n")
            summaries.append(lines[-1][:600] if lines else "")
            mism = [l for l in lines if l.startswith("MISMATCH")]
            timing = [l for l in lines if l.startswith("TIMING")]
            if mism:
                res.violations.append(("the adapter against a real JetStream bucket departs from the store contract: " + mism[0][:300],
                                       {"property": "C14", "kind": "adapter-vs-reference-store", "natsdiff_args": args, "mismatches": mism[:10],
                                        "replay": "cd /verif/harness && go build -tags verif -o /tmp/natsdiff ./natsdiff && /tmp/natsdiff " + " ".join(args[:-2])}))
            elif rc != 0 and not timing:
                res.tie_broken.append("natsdiff failed: " + out[-600:])
            elif timing:
                summaries.append("inconclusive expiry timing on a loaded machine (ignored): " + timing[0][:200])
            path = args[-1]
            if os.path.exists(path) and flavour:
                rc2, so, se = vlib.oracle(["c14", path, mm], flavour)
                try:
                    summ = json.loads(so)
                except Exception:
                    res.tie_broken.append("oracle failed: " + (so + se)[-500:])
                    continue
                total["cases"] += summ["cases"]
                total["ops"] += summ["ops"]
                for k, v in summ["classes"].items():
                    total["classes"][k] = total["classes"].get(k, 0) + v
                if summ.get("spec_violation", 0) > 0:
                    first = [l for l in open(mm).read().split("\n") if l.startswith("SPEC ")][:1]
                    body, _, why = (first[0] if first else " | ?").partition(" | ")
                    res.violations.append(("the adapter's outcome differs from the contract Store.v: " + why[:300],
                                           {"property": "C14", "kind": "adapter-vs-Store.v", "sequence": body[:3000], "why": why,
                                            "natsdiff_args": args}))
        res.coverage.update({
            "evaluations": total["cases"],
            "operations": total["ops"],
            "distinct_nontrivial": len(total["classes"]),
            "classes": total["classes"],
            "traces_validated_against_impl": total["cases"],
            "natsdiff_summaries": summaries,
            "rule": "seeded random sequences of Create/Update(latest, stale, future, 0, tombstone revision)/Get/Delete/Watch open-drain-stop on one or two "
                    "interleaved keys, run through the library's adapter against an embedded nats-server, against the Go reference store (natsdiff) and "
                    "against the extracted Store.v (oracle); thorough adds real-time bucket-TTL expiry and unpaced (conflating) watch runs; "
                    "distinct_nontrivial = distinct (operation, outcome) classes reached",
            "exhaustive": False,
            "samples": sample_lines(cases, k=8, step=37),
        })
        res.assumptions = ["nats-server v2.12.2 / nats.go v1.47.0 themselves are trusted (black box)",
                           "watch clause: with history 1 the SERVER conflates revisions that are overwritten before its consumer delivers them (measured by the "
                           "sub-agent: lossy only under heavy concurrent load); the exactly-once theorem and the paced runs assume the consumer keeps up; "
                           "unpaced runs check that every loss is a legal conflation (never the newest revision)",
                           "operations of one sequence are sequential on one connection (Create's three-round-trip non-atomicity over a tombstone under "
                           "concurrent writers is documented from nats.go source, not exercised)"]
        return res.finish()
    finally:
        for p in (cases, mm, cases + ".x", cases + ".n"):
            try:
                os.remove(p)
            except OSError:
                pass


CHECKS = {"C16": check_C16, "C15": check_C15, "C17": check_C17, "C14": check_C14}


def _sim(pid):
    def f(tier, seed):
        import simprops
        return simprops.sim_check(pid, tier, seed)
    return f


for _p in ("C01", "C02", "C03", "C04", "C05", "C06", "C07", "C08", "C09", "C10", "C11", "C12", "C13", "C18", "C19"):
    CHECKS[_p] = _sim(_p)


def replay(pid, path):
    if pid not in ("C14", "C15", "C16", "C17"):
        import simprops
        return simprops.sim_replay(pid, path)
    """Prints the recorded failing case and re-runs the property's check (the harness regenerates the case
    deterministically from its seed; the case itself is in the file)."""
    print(open(path).read())
    return CHECKS[pid]("quick", 1)


# =============================================================== C20
def _c20_known():
    import simprops
    return {k["signature"]: k["text"] for k in simprops.known_list() if k["property"] == "C20"}


_D15_STMT = re.compile(r"\be\.ctx\s*(,\s*e\.cancel\s*)?=[^=]|\.wg\.Add\(")


def _d15_site(pair):
    """One side of the racing pair is a statement that assigns the election context or adds to the WaitGroup."""
    for side in pair.split("|"):
        try:
            fn, ln = side.rsplit(":", 1)
            line = open(os.path.join(vlib.REPO, "leader", fn)).read().split("\n")[int(ln) - 1]
        except Exception:
            continue
        if _D15_STMT.search(line):
            return True
    return False


def check_C20(tier, seed):
    res = Result("C20", tier, seed)
    with vlib.Lock():
        gen_ok = prove(res, ["GenLocks.v"], "Props/C20.v")
    known = _c20_known()
    # the unprotected pairs and the lock order of the current source, computed by Coq from the regenerated table
    rc, out = vlib.run(["coqc", "-Q", ".", "LE", "RaceQuery.v"], cwd=vlib.COQ, timeout=1200)
    for junk in ("RaceQuery.vo", "RaceQuery.glob", ".RaceQuery.aux", "RaceQuery.vos", "RaceQuery.vok"):
        try:
            os.remove(os.path.join(vlib.COQ, junk))
        except OSError:
            pass
    pairs, edges, cyc = [], [], None
    if rc == 0:
        parts = re.split(r":\s*list \(string \* string \* string\)|:\s*list \(string \* string\)|:\s*bool", out)
        pairs = re.findall(r'\("([^"]+)",\s*"([^"]+)",\s*"([^"]+)"\)', parts[0])
        edges = re.findall(r'\("([^"]+)",\s*"([^"]+)"\)', parts[1]) if len(parts) > 1 else []
        cyc = "true" in parts[2] if len(parts) > 2 else None
    else:
        res.tie_broken.append("the lock facts of the current source could not be evaluated: " + coq_error_excerpt(out))
    seen_known = 0
    for fld, w, r in pairs:
        sig = "C20/static/%s/w=%s/r=%s" % (fld, w, r)
        if sig in known:
            seen_known += 1
            continue
        # D15 is "kvElection.ctx is written under e.mu by Start / StopWithContext and read without it": a reader that is not in
        # the list (the read moved into a helper, a new log line) is the same finding; another writer, or another field, is not
        if fld == "kvElection.ctx" and any(k.startswith("C20/static/kvElection.ctx/w=%s/r=" % w) for k in known):
            seen_known += 1
            continue
        res.violations.append(("conflicting accesses to %s by %s (write) and %s are not ordered by any common lock" % (fld, w, r),
                               {"property": "C20", "kind": "lock-discipline", "field": fld, "writer": w, "other": r, "signature": sig,
                                "how": "static access table regenerated from the source (gen/GenLocks.v); see the positions there",
                                "replay": "bin/check C20 --replay <this file>"}))
    if cyc:
        res.violations.append(("the lock order has a cycle: " + ", ".join("%s->%s" % e for e in sorted(set(edges))),
                               {"property": "C20", "kind": "lock-order-cycle", "edges": sorted(set(edges))}))
    if seen_known:
        res.known.append("C20/static/kvElection.ctx %d unprotected reader/writer pairs of the election context field (D15), listed in known_findings.txt" % seen_known)
    # dynamic part: the race detector on the API hammer
    dyn = race_harness(res, tier, seed, known)
    res.coverage.update({
        "evaluations": len(pairs) + dyn.get("scenarios", 0),
        "distinct_nontrivial": len(set(pairs)) + len(dyn.get("keys", [])),
        "static_unprotected_pairs": len(pairs), "lock_order_edges": sorted(set("%s->%s" % e for e in edges)),
        "race_harness": dyn,
        "rule": "static: every pair of conflicting accesses in the regenerated access table that no common lock orders (distinct = distinct (field, writer, reader)); "
                "dynamic: randomly generated concurrent API scenarios under the Go race detector (distinct = distinct pairs of library functions in reports)",
        "samples": [{"unprotected_pair": list(p)} for p in pairs[:3]] + dyn.get("samples", [])[:2],
        "traces_validated_against_impl": dyn.get("scenarios", 0),
        "exhaustive": False,
    })
    res.assumptions = ["the translator's lock-region analysis is syntactic (receiver-rooted field chains, intraprocedural regions, call-graph summaries): trusted",
                       "only plain fields of kvElection, disconnectHandler, natsConnectionMonitor and CircuitBreaker are tabulated; atomics and sync types are race-free by definition",
                       "races on captured local variables, inside user-supplied objects and inside nats.go are searched only dynamically"]
    return res.finish()


def race_harness(res, tier, seed, known):
    """Build harness/race with the race detector, run the concurrent API hammer in real time, parse the reports."""
    import glob as _glob
    import shutil as _shutil
    with vlib.Lock():
        ok, log, exe = vlib.go_build("race", "race.test", race=True, test=True)
        ok2, log2, pexe = vlib.go_build("race/cmd/parse", "raceparse")
    if not (ok and ok2):
        res.tie_broken.append("race harness does not build against /repo: " + (log + log2)[-800:])
        return {}
    secs = 14 if tier == "quick" else 90
    d = os.path.join(BUILD, "race.%d" % os.getpid())
    os.makedirs(d, exist_ok=True)
    out = os.path.join(d, "race.json")
    env = dict(os.environ)
    env.update({"RACE_OUT": out, "RACE_SECS": str(secs), "RACE_SEED": str(seed), "RACE_PAR": "12",
                "GORACE": "log_path=%s halt_on_error=0" % os.path.join(d, "log")})
    try:
        vlib.run([exe, "-test.run", "TestRace$", "-test.count=1"], env=env, timeout=secs + 120)
        vlib.run([pexe, os.path.join(d, "log"), out, out + ".meta"], timeout=120)
        try:
            rep = json.load(open(out))
        except Exception as e:
            res.tie_broken.append("race harness produced no result: %s" % e)
            return {}
        keys, samples, nknown = [], [], 0
        for r in rep.get("reports", []):
            key = r.get("key", "?")
            keys.append(key)
            funcs = [f.split(").")[-1] for f in key.split("|")]
            sig = "C20/dynamic/" + key
            # the racing write sites of the known finding: the statements of Start / StopWithContext that replace or clear the
            # election context, and Start's WaitGroup.Add (reuse while a stop still waits). A race whose racing statement in
            # Start / StopWithContext is any other one is not that finding.
            if ("Start" in funcs or "StopWithContext" in funcs) and "C20/dynamic/with-Start-or-StopWithContext" in known \
                    and all(_d15_site(sp) for sp in (r.get("sites") or ["?|?"])):
                nknown += 1
                continue
            if sig in known:
                nknown += 1
                continue
            if key in ("harness", "external"):
                continue
            res.violations.append(("the race detector reports a data race between %s" % key.replace("|", " and "),
                                   {"property": "C20", "kind": "race-detector-report", "key": key, "frames": r.get("frames"),
                                    "sites": r.get("sites"), "report": r.get("raw", "")[:3000], "signature": sig,
                                    "replay": "bin/check C20 --replay <this file> (re-runs the hammer with the same seed)"}))
            samples.append({"race_report_key": key, "frames": r.get("frames")})
        if nknown:
            res.known.append("C20/dynamic/with-Start-or-StopWithContext %d race-detector reports whose racing write is in Start / StopWithContext "
                             "(the election context field D15, and Start's WaitGroup.Add concurrent with a stop's Wait)" % nknown)
        return {"seconds": rep.get("seconds", secs), "scenarios": rep.get("scenarios", 0), "api_calls": rep.get("api_calls", 0),
                "crashes": len(rep.get("crashes", []) or []), "keys": sorted(set(keys)), "samples": samples}
    finally:
        _shutil.rmtree(d, ignore_errors=True)


CHECKS["C20"] = check_C20
