"""Per-property checks. Each check(tier, seed) returns an exit code after writing
evidence/<id>.json and printing VIOLATION / KNOWN-FINDING lines."""
import json
import os
import re
import time

import vlib
from vlib import BUILD, VERIF, REPO


def coq_error_excerpt(log):
    m = re.search(r'(File "[^"]+", line \d+[^\n]*\n(?:.*\n){0,12})', log)
    return (m.group(1) if m else log[-1500:]).strip()


class Result:
    def __init__(self, pid, tier, seed):
        self.pid, self.tier, self.seed = pid, tier, seed
        self.t0 = time.time()
        self.tie_broken = []      # descriptions of broken proof obligations / correspondence
        self.violations = []      # (description, replay-object) concrete failing inputs
        self.known = []           # known-finding descriptions hit
        self.coverage = {}
        self.assumptions = []

    def finish(self):
        wall = time.time() - self.t0
        nviol = 0
        rc = 0
        for desc, obj in self.violations:
            path = vlib.write_replay(self.pid, "fail", obj)
            print("VIOLATION property=%s replay=%s  %s" % (self.pid, path, desc))
            nviol += 1
            rc = 1
        if not self.violations and self.tie_broken:
            obj = {"property": self.pid, "kind": "proof-or-correspondence-broken",
                   "broken": self.tie_broken,
                   "note": "the search over the implementation found no concrete failing input; "
                           "the property is no longer shown to hold"}
            path = vlib.write_replay(self.pid, "tie", obj)
            print("VIOLATION property=%s replay=%s no-failing-input-found" % (self.pid, path))
            nviol += 1
            rc = 1
        for k in self.known:
            print("KNOWN-FINDING: property=%s %s" % (self.pid, k))
        self.coverage.setdefault("tie_broken", self.tie_broken)
        vlib.write_evidence(self.pid, self.tier, self.seed, self.coverage, self.assumptions, wall, nviol)
        if rc == 0:
            print("OK property=%s tier=%s wall=%.1fs" % (self.pid, self.tier, wall))
        return rc


def prove(res, gen_units, props_file):
    """Steps 1-2: regenerate, build proofs, hygiene, Print Assumptions. Returns True when the
    generated units translated (so the full oracle can be built)."""
    st = vlib.translate()
    gen_ok = True
    if "__fatal__" in st:
        res.tie_broken.append("translator failed: " + st["__fatal__"])
        gen_ok = False
    for u in gen_units:
        if st.get(u) != "ok":
            res.tie_broken.append("translator: %s: %s" % (u, st.get(u, "not produced")))
            gen_ok = False
    hy = vlib.hygiene()
    if hy:
        res.tie_broken.append("hygiene gate: " + "; ".join(hy[:5]))
    ok, log = vlib.coq_build(props_file)
    thms = {}
    if not ok:
        res.tie_broken.append("coq: %s does not check: %s" % (props_file, coq_error_excerpt(log)))
    else:
        okp, thms, out = vlib.coq_props(props_file)
        if not okp:
            res.tie_broken.append("coq: %s does not check: %s" % (props_file, coq_error_excerpt(out)))
    closure = vlib.coq_closure(props_file)
    nthm = len(thms) if thms else len(re.findall(r"^\s*Theorem\s+\w+", open(os.path.join(vlib.COQ, props_file)).read(), re.M))
    nq = vlib.count_proofs(closure)
    compiled = [f for f in closure if os.path.exists(os.path.join(vlib.COQ, f[:-2] + ".vo"))
                and os.path.getmtime(os.path.join(vlib.COQ, f[:-2] + ".vo")) >= os.path.getmtime(os.path.join(vlib.COQ, f))]
    res.coverage.update({
        "obligations": nq,
        "discharged": nq if ok else max(1, vlib.count_proofs(compiled)) if nq > 1 else 0,
        "property_theorems": thms if thms else nthm,
        "proof_files": closure,
        "checker_cmd": "cd /verif/coq && coq_makefile -f _CoqProject -o Makefile && make -j16 %s.vo && coqc -Q . LE %s" % (props_file[:-2], props_file),
    })
    axioms = sorted(set(v for v in thms.values())) if thms else []
    res.coverage["trusted_base"] = list(vlib.TRUSTED_COMMON) + ["Print Assumptions: " + "; ".join("%s: %s" % kv for kv in sorted(thms.items()))]
    return gen_ok


def oracles(res, gen_ok):
    """Build the oracle(s). Returns flavour to use or None."""
    if gen_ok:
        ok, log = vlib.build_oracle("full")
        if ok:
            return "full"
        res.tie_broken.append("oracle (full) does not build: " + coq_error_excerpt(log))
    ok, log = vlib.build_oracle("spec")
    if ok:
        return "spec"
    res.tie_broken.append("oracle (spec) does not build: " + log[-800:])
    return None


# =============================================================== C16
def check_C16(tier, seed):
    res = Result("C16", tier, seed)
    with vlib.Lock():
        gen_ok = prove(res, ["GenConfig.v"], "Props/C16.v")
        flavour = oracles(res, gen_ok)
        okb, blog, exe = vlib.go_build("pure", "pure")
    if not okb:
        res.tie_broken.append("harness does not build against /repo: " + blog[-800:])
        return res.finish()
    cases = os.path.join(BUILD, "c16.%d.txt" % os.getpid())
    mm = cases + ".mm"
    exhaustive = (tier == "thorough") or bool(res.tie_broken)
    cmd = [exe, "c16", "-seed", str(seed), "-out", cases]
    cmd += ["-exhaustive"] if exhaustive else ["-n", "60000"]
    rc, out = vlib.run(cmd, timeout=1200)
    if rc != 0:
        res.tie_broken.append("pure harness failed: " + out[-800:])
        return res.finish()
    summ = {}
    if flavour:
        rc, so, se = vlib.oracle(["c16", cases, mm], flavour)
        try:
            summ = json.loads(so)
        except Exception:
            res.tie_broken.append("oracle failed: " + (so + se)[-500:])
    lines = open(mm).read().split("\n") if os.path.exists(mm) else []
    keys = "bucket group id ttl hb valint grace maxfail prio takeover impl_result provider_calls".split()

    def as_case(line):
        f = line.split(" | ")[0].split()[1:]
        return dict(zip(keys, f))

    for l in lines:
        if l.startswith("SPEC "):
            res.violations.append(("NewElection result differs from the documented rule (spec %s)" % l.split(" | ")[1],
                                   {"property": "C16", "kind": "spec", "input": as_case(l),
                                    "replay": "bin/check C16 --replay <this file>"}))
            break
    for l in lines:
        if l.startswith("CALLS "):
            res.violations.append(("constructor contacted the provider although it rejected the configuration",
                                   {"property": "C16", "kind": "provider-called-before-validation", "input": as_case(l)}))
            break
    if summ.get("gen_mismatch", 0) > 0:
        first = [l for l in lines if l.startswith("GEN ")][:1]
        res.tie_broken.append("correspondence: generated validate_config differs from NewElection on %d inputs, e.g. %s"
                              % (summ["gen_mismatch"], first[0] if first else "?"))
    # coverage
    samples = []
    with open(cases) as f:
        for i, l in enumerate(f):
            if i % 997 == 0 and len(samples) < 5:
                samples.append(dict(zip(keys, l.split())))
    res.coverage.update({
        "evaluations": summ.get("cases", 0),
        "distinct_nontrivial": len([k for k, v in summ.get("classes", {}).items() if v > 0]),
        "rule": "configurations on the boundary lattice of every rule (each duration at k*H-1, k*H, k*H+1, 0, +-1, +-1 year; "
                "H from 1 ns to 1 year and non-positive; strings empty/non-empty; ints -2..3); "
                "quick: 60000 seeded samples, thorough: the whole lattice; distinct_nontrivial counts the distinct outcome "
                "classes reached (accepted, and rejected with each field name)",
        "exhaustive": exhaustive,
        "outcome_classes": summ.get("classes", {}),
        "oracle": flavour,
        "gen_mismatch": summ.get("gen_mismatch"),
        "spec_checked": summ.get("spec_checked"),
        "samples": samples,
    })
    res.assumptions = ["durations with |HeartbeatInterval| <= 2^61 ns (outside that range 3*H wraps in int64; witness overflow_accepts_short_ttl)",
                       "the constructor fact ctor_validates_first is syntactic (first statement of newKVElection)"]
    for p in (cases, mm):
        try:
            os.remove(p)
        except OSError:
            pass
    return res.finish()


CHECKS = {"C16": check_C16}
