"""recheck_seeded.py: apply every seeded change to /repo in turn, run the check(s) its meta.json names, undo it; report which are (still) caught (tool)."""
import json, os, re, subprocess, sys
S = "/verif/seeded"
out = {}
for d in sorted(os.listdir(S)):
    m = json.load(open(os.path.join(S, d, "meta.json")))
    checks = re.findall(r"bin/check (C\d\d)", m.get("detection", "")) or [m["property"][:3]]
    checks = list(dict.fromkeys(checks))
    p = subprocess.run(["git", "-C", "/repo", "apply", os.path.join(S, d, "patch.diff")], capture_output=True, text=True)
    if p.returncode != 0:
        out[d] = "DOES NOT APPLY"; print(d, out[d], flush=True); continue
    caught = []
    for c in checks:
        r = subprocess.run(["/verif/bin/check", c, "--tier", "quick"], capture_output=True, text=True)
        v = [l for l in r.stdout.split("\n") if l.startswith("VIOLATION")]
        if v:
            caught.append("%s:%s" % (c, re.sub(r".*\[(.*?)\].*", r"\1", v[0])))
    subprocess.run(["git", "-C", "/repo", "checkout", "--", "."])
    subprocess.run("rm -f /verif/replays/*-fail-*.json; git -C /verif checkout -- replays evidence 2>/dev/null", shell=True)
    out[d] = caught or "NOT CAUGHT"
    print(d, out[d], flush=True)
json.dump(out, open("/tmp/recheck_seeded.json", "w"), indent=1)
