#!/usr/bin/env python3
import json, sys
SITES=["?","attemptAcquire","attemptPriorityTakeover","heartbeatLoop","validateToken","checkKeyAndReelect","verifyLeadershipAfterReconnect","StopWithContext","watchLoop","Start","attemptAcquireWithRetry","handleWatchEvent","validationLoop","ValidateToken","ValidateTokenOrDemote","Stop","becomeLeader","becomeFollower","handleReconnect","handleGracePeriodExpired","handleDisconnect","handleHeartbeatFailure","handleHealthCheckFailure","handleValidationFailure","handleReconnectVerificationFailed","recordHeldByOther"]
KINDS={1:"Create",2:"Update",3:"Get",4:"Delete",5:"Watch"}
LOG={1:"election_started",2:"attempting_acquire_with_retry",3:"acquire_failed_max_retries",4:"acquire_retry",5:"acquire_failed",6:"acquire_success",7:"state_transition",8:"leader_promoted",9:"priority_takeover_success",10:"leader_demoted",11:"election_stopped",12:"shutdown_timeout",13:"shutdown_cancelled",14:"key_deletion_failed",15:"key_deleted",16:"ondemote_callback_timeout",17:"token_validation_failed",18:"health_check_failed",19:"health_check_recovered",20:"heartbeat_failed",21:"leadership_taken_over",22:"heartbeat_recovered",23:"demoting_due_to_heartbeat_failure",24:"demoting_due_to_health_check_failure",25:"watch_failed",26:"watch_started",27:"watch_closed",28:"key_not_found_triggering_reelection",29:"key_empty_triggering_reelection",30:"leader_changed_periodic_check",31:"watch_event_key_deleted",32:"watch_event_key_empty",33:"leadership_lost_via_watcher",34:"leader_changed",35:"priority_takeover_opportunity",36:"priority_takeover_failed",37:"token_validation_recovered",38:"demoting_due_to_validation_failure",39:"connection_disconnected",40:"connection_reconnected_before_grace_period",41:"demoting_due_to_connection_loss",42:"connection_reconnected",43:"verifying_leadership_after_reconnect",44:"reconnect_verification_failed",45:"reconnect_verification_success",46:"demoting_due_to_reconnect_verification_failure"}
API={1:"Start",2:"Stop",3:"StopWithContext",4:"ValidateToken",5:"ValidateTokenOrDemote",7:"conn"}
def pretty(l):
    f=l.split()
    t=int(f[0])/1e6; k=f[1]; a=[int(x) for x in f[2:]]
    if k=="issue": return "%10.3f issue  i%d op%d %s site=%s root=%s g%d key%d val%d exp%d"%(t,a[0],a[1],KINDS.get(a[2]),SITES[a[3]],SITES[a[4]],a[5],a[6],a[7],a[8])
    if k=="apply": return "%10.3f apply  op%d outcome%d rev%d val%d"%(t,*a)
    if k=="ret": return "%10.3f ret    i%d op%d rk%d rev%d val%d"%(t,*a)
    if k=="flag": return "%10.3f FLAG   i%d %d cause=%s root=%s g%d"%(t,a[0],a[1],SITES[a[2]],SITES[a[3]],a[4])
    if k=="log": return "%10.3f log    i%d %s g%d %d"%(t,a[0],LOG.get(a[1],a[1]),a[2],a[3])
    if k=="api": return "%10.3f API    i%d %s %s"%(t,a[0],API.get(a[1],a[1]),a[2:])
    if k=="apiret": return "%10.3f APIRET i%d %s res=%d err=%d"%(t,a[0],API.get(a[1],a[1]),a[2],a[3])
    if k=="status": return "%10.3f status i%d state%d il%d lid%d tok%d rev%d pl%d plid%d ptok%d"%(t,*a)
    return "%10.3f %s %s"%(t,k,a)
o=json.load(open(sys.argv[1]))
print(o["signature"], o["what"]); print(json.dumps(o["scenario"])[:1500])
for l in o["trace_excerpt"]: print(pretty(l))
