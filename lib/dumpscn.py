#!/usr/bin/env python3
"""dumpscn.py <replay.json> [from] [to] [--all]: rerun the scenario of a replay file and print its trace (without status/quiet lines)."""
import json, subprocess, os, sys
o=json.load(open(sys.argv[1]))
sc=o.get('scenario',o)
open('/tmp/sc.jsonl','w').write(json.dumps(sc)+'\n')
env=dict(os.environ,SIM_OUT='/tmp/sc.trace',SIM_IN='/tmp/sc.jsonl')
subprocess.run(['/verif/.build/sim.test','-test.run','TestSim$'],env=env,stdout=subprocess.DEVNULL)
lines=[l for l in open('/tmp/sc.trace').read().split('\n') if l and not l.startswith(('BEGIN','END','#'))]
exec(open('/verif/lib/showreplay.py').read().split("o=json.load")[0])
a=int(sys.argv[2]) if len(sys.argv)>2 else 0
b=int(sys.argv[3]) if len(sys.argv)>3 else len(lines)
print(json.dumps(sc)[:1800])
for i,l in enumerate(lines):
    if a<=i<=b and (('--all' in sys.argv) or (' status ' not in l and ' quiet' not in l and ' valdef ' not in l)): print(i,pretty(l))
