#!/usr/bin/env python3
"""Regenerates /verif/MANIFEST.json from the table below (keeps it valid at all times)."""
import json
import os

VERIF = os.path.dirname(os.path.dirname(os.path.abspath(__file__)))
props = [json.loads(l) for l in open(os.path.join(VERIF, "properties.jsonl"))]

CLAIMED = {
    "C14": dict(
        text="The store contract is the Coq model Store.v; machine-checked theorems about it for all operation sequences (Create iff no live value, Update iff "
             "latest revision, failed writes change nothing, revisions strictly increase, Get returns the latest live value, a watch delivers every later change "
             "exactly once and in revision order). The tie is the property itself: on every run the library's real adapter (verif hook) is driven against an "
             "embedded nats-server with random operation sequences and every outcome is replayed on the extracted Store.v and on the Go reference store used by "
             "the simulator; goroutine counts are checked for repeated Updates() calls and for Stop with undelivered entries.",
        design_ref="5.14",
        note="Trusted: Coq kernel, extraction, natsdiff harness (written by a sub-agent, reviewed), nats-server/nats.go as a black box. The watch theorem "
             "excludes the server-side conflation of history-1 buckets (environment step Drop); paced runs assume the consumer keeps up, unpaced runs "
             "(thorough) check every loss is a legal conflation. No axioms.",
        technique="Coq proofs about the reference store model + three-way differential execution (real adapter on embedded NATS / Go reference store / extracted Store.v)",
    ),
    "C17": dict(
        text="Machine-checked proofs (Coq): CalculateBackoff regenerated from retry.go over exact rationals stays within +-Jitter of "
             "min(MaxBackoff, Initial*Multiplier^n) and is never negative for every attempt number, every random draw and every non-negative configuration; "
             "the regenerated CircuitBreaker.Call refines a reference automaton that opens at exactly the threshold, rejects without invoking inside the "
             "cooldown and closes on the first success; the hand-written loop model of RetryWithBackoff never exceeds MaxAttempts, never invokes after "
             "success/permanent error/cancellation and waits the backoffs of attempts 0,1,2,...; the acquisition-round constants are regenerated. The real "
             "functions run under virtual time (testing/synctest) and are compared with the generated/model functions and with the executable specification.",
        design_ref="5.17",
        note="Trusted: Coq kernel, go2coq, extraction, OCaml glue (incl. shortcuts for attempt numbers > 200), exact-rational abstraction of float64 (compared with "
             "slack 2^-40 relative + 2 ns), retry_loop hand model (tied by the virtual-time harness). No axioms. Round behaviour in elections is observed by the simulator (C17's last sentence).",
        technique="Coq proof about translator-regenerated Gallina (Q arithmetic, breaker automaton) + hand model of the retry loop tied by differential execution under virtual time",
    ),
    "C15": dict(
        text="Machine-checked proofs (Coq), for every error value of an inductive error algebra (any nesting depth, any texts), about the two classifiers "
             "regenerated from error.go on every run: never both, nil neither, every non-nil error exactly one, context/deadline/TimeoutError causes at any "
             "depth transient, config/permission/bucket causes permanent; and, by computation, that the error values captured from the real NATS client on "
             "this run (through the library's adapter against an embedded server) classify as the property demands. The generated functions and the "
             "model's Error() text are executed against IsPermanentError/IsTransientError/Error() on seeded random error values.",
        design_ref="5.15",
        note="Trusted: Coq kernel, go2coq, extraction, the hand-written error algebra Err.v (validated by comparing Error() text and classifications with Go on every run; "
             "errors.Join / multiple %w not modelled; ToLower on ASCII). No axioms.",
        technique="Coq proof (structural, all error values) about translator-regenerated classifiers + differential execution against Go + live capture of NATS errors",
    ),
    "C16": dict(
        text="Machine-checked proof (Coq) that the validation function regenerated from validation.go on every run accepts exactly "
             "the documented configurations and names an offending field otherwise (all strings, all durations with |H| <= 2^61 ns, all ints), "
             "plus the regenerated fact that the constructor validates before touching the provider. The generated function is also executed "
             "(extracted) against NewElection on the boundary lattice, so a translation error shows as a disagreement.",
        design_ref="5.16",
        note="Trusted: Coq kernel, go2coq translator (double-checked by execution against NewElection), extraction (ExtrOcamlBasic), OCaml glue. "
             "Theorems closed under the global context (no axioms). int64 wrap-around of 3*H is modelled explicitly (wrap64); outside |H| <= 2^61 ns the statement is not claimed.",
        technique="Coq proof about translator-regenerated Gallina + differential execution of the generated function against NewElection",
    ),
}

checks = []
for p in props:
    pid = p["id"]
    if pid in CLAIMED:
        c = CLAIMED[pid]
        checks.append({
            "property_id": pid,
            "quick_cmd": "bin/check %s --tier quick" % pid,
            "thorough_cmd": "bin/check %s --tier thorough" % pid,
            "evidence_file": "evidence/%s.json" % pid,
            "replay_cmd_template": "bin/check %s --replay {path}" % pid,
            "engine": "coq+go",
            "level_claimed": {"category": c.get("category", "proof"), "text": c["text"], "design_ref": "DESIGN.md " + c["design_ref"]},
            "level_note": c["note"],
            "technique": c["technique"],
        })

m = {
    "version": 1,
    "setup_cmd": "bin/setup",
    "hooks": {
        "guard": "verif",
        "enable": "go build -tags verif (harness module /verif/harness, replace => /repo)",
        "baseline_off_cmd": "cd /repo && GOPROXY=off go test -mod=mod -vet=off -count=1 -timeout 25m ./...",
        "source_commits": ["69e545b"],
        "add_only": True,
    },
    "engines": [{
        "name": "coq+go",
        "path": "bin/check",
        "serves_properties": sorted(CLAIMED),
        "kind_free_text": "Coq 8.16.1 development (/verif/coq) over definitions regenerated from /repo by /verif/translator, plus hand-written executable "
                          "models tied to the code by a Go correspondence harness (/verif/harness) and an OCaml oracle extracted from the Coq definitions (/verif/oracle)",
    }],
    "checks": checks,
    "notes": "See DESIGN.md. Fix commits in /repo and known findings are listed in known_findings.jsonl.",
    "not_applicable": [{"property_id": p["id"], "reason": "check under construction in this session (to be claimed; see DESIGN.md section 5)"}
                       for p in props if p["id"] not in CLAIMED],
}
json.dump(m, open(os.path.join(VERIF, "MANIFEST.json"), "w"), indent=1)
print("MANIFEST.json written:", len(checks), "checks")
