#!/usr/bin/env python3
"""Regenerates /verif/MANIFEST.json from the table below (keeps it valid at all times)."""
import json
import os

VERIF = os.path.dirname(os.path.dirname(os.path.abspath(__file__)))
props = [json.loads(l) for l in open(os.path.join(VERIF, "properties.jsonl"))]

CLAIMED = {
    "C14": dict(
        text="The store contract is the Coq model Store.v; machine-checked theorems about it for all operation sequences (Create iff no live value, Update iff "
             "latest revision, failed writes change nothing, revisions strictly increase, Get returns the latest live value, a watch delivers every later change "
             "exactly once and in revision order). The tie is the property itself: on every run the library's real adapter (verif hook) is driven against an "
             "embedded nats-server with random operation sequences and every outcome is replayed on the extracted Store.v and on the Go reference store used by "
             "the simulator; goroutine counts are checked for repeated Updates() calls and for Stop with undelivered entries.",
        design_ref="5.14",
        note="Trusted: Coq kernel, extraction, natsdiff harness (written by a sub-agent, reviewed), nats-server/nats.go as a black box. The watch theorem "
             "excludes the server-side conflation of history-1 buckets (environment step Drop); paced runs assume the consumer keeps up, unpaced runs "
             "(thorough) check every loss is a legal conflation. No axioms.",
        technique="Coq proofs about the reference store model + three-way differential execution (real adapter on embedded NATS / Go reference store / extracted Store.v)",
    ),
    "C17": dict(
        text="Machine-checked proofs (Coq): CalculateBackoff regenerated from retry.go over exact rationals stays within +-Jitter of "
             "min(MaxBackoff, Initial*Multiplier^n) and is never negative for every attempt number, every random draw and every non-negative configuration; "
             "the regenerated CircuitBreaker.Call refines a reference automaton that opens at exactly the threshold, rejects without invoking inside the "
             "cooldown and closes on the first success; the hand-written loop model of RetryWithBackoff never exceeds MaxAttempts, never invokes after "
             "success/permanent error/cancellation and waits the backoffs of attempts 0,1,2,...; the acquisition-round constants are regenerated. The real "
             "functions run under virtual time (testing/synctest) and are compared with the generated/model functions and with the executable specification.",
        design_ref="5.17",
        note="Trusted: Coq kernel, go2coq, extraction, OCaml glue (incl. shortcuts for attempt numbers > 200), exact-rational abstraction of float64 (compared with "
             "slack 2^-40 relative + 2 ns), retry_loop hand model (tied by the virtual-time harness). No axioms. Round behaviour in elections is observed by the simulator (C17's last sentence).",
        technique="Coq proof about translator-regenerated Gallina (Q arithmetic, breaker automaton) + hand model of the retry loop tied by differential execution under virtual time",
    ),
    "C15": dict(
        text="Machine-checked proofs (Coq), for every error value of an inductive error algebra (any nesting depth, any texts), about the two classifiers "
             "regenerated from error.go on every run: never both, nil neither, every non-nil error exactly one, context/deadline/TimeoutError causes at any "
             "depth transient, config/permission/bucket causes permanent; and, by computation, that the error values captured from the real NATS client on "
             "this run (through the library's adapter against an embedded server) classify as the property demands. The generated functions and the "
             "model's Error() text are executed against IsPermanentError/IsTransientError/Error() on seeded random error values.",
        design_ref="5.15",
        note="Trusted: Coq kernel, go2coq, extraction, the hand-written error algebra Err.v (validated by comparing Error() text and classifications with Go on every run; "
             "errors.Join / multiple %w not modelled; ToLower on ASCII). No axioms.",
        technique="Coq proof (structural, all error values) about translator-regenerated classifiers + differential execution against Go + live capture of NATS errors",
    ),
    "C16": dict(
        text="Machine-checked proof (Coq) that the validation function regenerated from validation.go on every run accepts exactly "
             "the documented configurations and names an offending field otherwise (all strings, all durations with |H| <= 2^61 ns, all ints), "
             "plus the regenerated fact that the constructor validates before touching the provider. The generated function is also executed "
             "(extracted) against NewElection on the boundary lattice, so a translation error shows as a disagreement.",
        design_ref="5.16",
        note="Trusted: Coq kernel, go2coq translator (double-checked by execution against NewElection), extraction (ExtrOcamlBasic), OCaml glue. "
             "Theorems closed under the global context (no axioms). int64 wrap-around of 3*H is modelled explicitly (wrap64); outside |H| <= 2^61 ns the statement is not claimed.",
        technique="Coq proof about translator-regenerated Gallina + differential execution of the generated function against NewElection",
    ),
}

SIMNOTE = 'Trusted: Coq kernel (no axioms: every property theorem is closed under the global context); go2coq translator for the constants and comparisons in gen/GenGuards.v; extraction (ExtrOcamlBasic) and the OCaml/Python glue; the coq-record-update library (definitions only); the simulator harness (testing/synctest virtual time, scripted reference store validated against the real NATS adapter by C14, observers on the public Logger/Metrics/HealthChecker/callback interfaces, call sites from runtime.Callers); record decoding is done by encoding/json in the harness. MODELLED, NOT VERIFIED: the protocol rules of coq/Sim/Proto.v are hand-written from the Go code; what ties them to /repo is that every trace of the real library produced on this run is replayed through them (a rule that fails is reported as a broken correspondence) at blocking-point granularity under one P; interleavings finer than a blocking point, the Go scheduler and real time are not represented.'

def sim(text, ref, technique, category="proof", extra=""):
    return dict(text=text, design_ref=ref, note=SIMNOTE + (" " + extra if extra else ""), technique=technique, category=category)

TECH = "Coq proof over a protocol automaton (local rules, constants regenerated from the source) + replay of real-library traces (testing/synctest simulator) through the extracted rules and property monitors"
CLAIMED.update({
    "C01": sim("Theorems (Coq, induction over all admitted traces of any length and any number of instances): elections touch only their own group's key; a Create "
               "succeeds only while no live record exists and an Update only against the key's exact latest revision; a created record names its creator; a "
               "takeover replaces only a live version that the issuer itself read, with takeover enabled and strictly lower stored priority; every successful "
               "refresh replaces a live version written by the same instance with the same id and token (views invariant: every (token, revision) pair an "
               "instance holds is a version it wrote with that token; history uniqueness). Deletion-by-owner is decided by the monitor only: it is FALSE on the "
               "code in a narrow window (known finding D5 residual, replayed from corpus/).", "5.1 and 11", TECH),
    "C02": sim("Theorem (Coq, Props/C02.v, by induction over every trace the protocol model admits, any number of instances and steps): in the environment the "
               "property names - every store call in flight younger than H/2 and answered without transport fault, 0 < H and 3H <= the bucket's maximum age, a message "
               "ages out only when that old, nobody else writes, no health checker, no priority takeover - at every position at most one instance claims a key and "
               "every claim is backed by the live record with the claimant's identity and current token (monitor clauses 201/202). "
               "That the record does not age out under its holder, and that every refresh attempt of a claiming instance succeeds, are DERIVED (Proofs/SimLeaseT.v: timing "
               "invariant over the refresh clock; Proofs/SimLeaseC.v: the attempt in flight goes against the key's latest revision, attempts of a term are sequential, "
               "left-over attempts of earlier terms expect an older revision), from urgency and ordering rules of the model (2070, 2072-2076) each validated on every real "
               "trace. PARTIAL in one respect: 'no Delete takes effect on a key under a holder' stays a hypothesis of the environment predicate (Sim/EnvT.v envC_okb) - it is "
               "the recorded residual of D5 - and instances with a health checker are outside the environment. The intermediate theorems (refreshes assumed to succeed; no "
               "expiry under a holder assumed) and the component theorems are kept. The environment predicates are executable: the oracle reports on how many real traces "
               "each holds and a check fails if a real trace contradicts a theorem or one of the implications between the environments; a recorded trace of the real library "
               "satisfies them (theorem). "
               "The monitor evaluates the full statement at every flag/record change of every fault-free simulated trace.", "5.2, 11 and 12", TECH, category="proof"),
    "C03": sim("Theorems: for all schedules obeying the ticker rule of the heartbeat loop and the regenerated per-attempt time-out, the third consecutive failure completes "
               "within 3H+3T of the start of the last successful refresh and the next attempt after a record change completes within H+2T; the regenerated time-out "
               "is max(H/2,1s) and the regenerated strike comparison first holds at exactly 3. The monitor measures both bounds (and the demotion callback) on every "
               "simulated trace with faults at every attempt index and fault kind.", "5.3 and 11", TECH),
    "C04": sim("Theorem: the verdict function (hand model of validateToken's decision chain over the map-decoder view) is true iff the token is non-empty and the record "
               "decodes to an object whose token and id strings equal the caller's; the monitor's condition for a positive answer is exactly that verdict on the "
               "live record. Every ValidateToken/ValidateTokenOrDemote call of the real library in the simulated traces (tampered, derived, truncated, "
               "case-variant records; racing writes; cancelled contexts) is checked against it, including the fail-safe and demotion clauses.", "5.4 and 11", TECH,
               extra="The verdict model is hand-written (not regenerated); the theorem is about that model."),
    "C05": sim("Theorems: every acquisition by Create publishes a readable payload naming its issuer with a non-empty token, and every successful refresh republishes "
               "exactly the token and identity of the version it replaces (same theorem as C01's refresh clause); and (Proofs/SimFresh.v) every successful acquisition "
               "publishes a token that no version of the history carries, for every admitted trace in which nobody else writes the bucket and no takeover is configured "
               "(tokens in the history are tokens of applied Creates; pending Creates carry pairwise different tokens: rule 2003 states freshness locally, uuid uniqueness "
               "is trusted). PARTIAL: with an outside writer or the takeover path the freshness clause is decided by the monitor only; so are the "
               "callback/Token()/Status() clauses.",
               "5.5, 11 and 12", TECH),
    "C06": sim("Theorem: for every schedule in which the periodic check fires within the regenerated interval, the acquisition round waits at most the regenerated "
               "maximum jitter and each store call takes at most L, a vacancy is filled within 500 ms + 100 ms + 4L. The monitor measures the bound on every "
               "vacancy of every simulated trace (deletion, expiry after crash/partition, removal; lost/closed/failed watches; transient failures).", "5.6 and 11", TECH),
    "C07": sim("Theorem (Coq, Props/C07.v C07_partial_only_a_stop_ends_a_term, by induction over every trace admitted by the protocol model, any number of "
               "instances and steps): in the property's environment - a store that answers within half a heartbeat interval without transport faults, nobody "
               "else writing the bucket, no takeover or health checker configured, no expiry or Delete under a holder, no connection notification, no unhealthy "
               "result - no observation shows a claim given up by the refresh-failure path (SimStable), the watcher (SimWatch: whatever the delay, duplication or "
               "order of the notifications), the connection and health paths or an acquisition round (SimCauses), or the instance's own validation loop "
               "(SimValid): only a stop call, the cancellation of the context passed to Start or the fencing check the application asks for can end a term; and "
               "the record never lapses or changes owner under the claiming leader (C02's theorem). Store calls answered within H/2 never reach the time-outs "
               "(regenerated: max(2 s, H/2) after repair 07d1c30, max(1 s, H/2)). PARTIAL: the local rules 2080-2086, 2090 (what each demotion path acts on) are "
               "validated on every real trace, not derived from the source; 'no Delete under a holder' is the recorded finding D5; token constancy and callbacks are "
               "C05 / C08. The monitor decides the property on every fault-free trace as well, including intervals above 4 s and answers between the fixed "
               "time-outs and H/2.", "5.7, 11 and 12", TECH),
    "C08": sim("Theorem (Coq, counting invariant over all admitted traces): the local callback rules (one promotion per term; a demotion only when one is owed and after the "
               "term's promotion has been entered; the claim raised only when no callback is owed) imply that promotion and demotion callbacks strictly alternate, starting "
               "with a promotion. Rules 2042/2046 of earlier versions (promotion entered while the term is alive) were too strong - a stop landing at the instant of the "
               "promotion ends the term before the callback goroutine is scheduled - and were replaced by 2047/2048; the theorem was re-proved. Token of the promotion and the "
               "counts at quiescent points are decided by the monitor, also under stops made from inside the library's call-outs.", "5.8, 11 and 12", TECH),
    "C09": sim("Theorem: a stopped election never raises the claim again (invariant: stopped implies state STOPPED; rules: a stopped election stays stopped, the claim "
               "is refused in state STOPPED). No promotion / no new store call after stop, promptness, goroutine census, crash/hang and the DeleteKey clause are "
               "decided by the monitor over stop points placed before/inside/after every class of store call.", "5.9 and 11", TECH),
    "C10": sim("Theorems: a successful Update from the takeover path replaces only a live version read by the issuer, with takeover enabled and strictly lower stored "
               "priority; the regenerated comparison yields on equal priority and takeover needs the flag and a positive priority. Promptness (3H) and stability "
               "are decided by the monitor on fault-free traces with latency <= H/10.", "5.10 and 11", TECH),
    "C11": sim("Theorems: the regenerated default grace period is max(3H, 5 s) and the settling delay before the verification read is 100 ms; the lock-order relation regenerated "
               "from the source (which locks may be held while which lock is acquired, over the call graph) has no cycle and no re-acquisition of a held lock - the "
               "deadlock-freedom clause, decided by computation over the finite generated relation. Not-early / on-time demotion, a fresh read after every reconnect "
               "notification (clause 1107), the verification verdict and crash freedom are decided by the monitor on connection-notification sequences around the grace "
               "boundary (flapping, notifications between two terms, failing or slow verification reads).", "5.11, 11 and 12", TECH),
    "C12": sim("Theorems: the regenerated threshold comparison first holds at exactly the configured count (default 3 when <= 0, always >= 1) and the check context "
               "expires within 100 ms. Count restart per term / on a healthy result, the callback and continuation as follower are decided by the monitor on health "
               "scripts x thresholds x several terms.", "5.12 and 11", TECH),
    "C13": sim("Theorems: the claim is raised only after the claimant's own successful write, and a takeover never replaces a record it could not decode (the takeover "
               "invariant requires a readable stored priority). No crash/hang/unbounded work under arbitrary record bytes is decided by the monitor and the process "
               "watchdog on tamper scenarios.", "5.13 and 11", TECH),
    "C18": sim("Theorem (Coq, Props/C18.v, from the table of status writers regenerated from the source on every run, gen/GenStatus.v): whatever groups of stores "
               "to isLeader / state / leaderID / token run, in whatever order and number, between any two of them IsLeader is true exactly when State is LEADER, a leader's "
               "LeaderID is its own id, its token is the one its term was promoted with and State is a documented value; every group holds kvElection.mu exclusively and Status() loads the three fields inside the same "
               "lock, so every snapshot is taken between two groups. PARTIAL: revision, convergence of a follower's LeaderID, the gauge and the transition chain "
               "are decided by the monitor: every Status() snapshot at every quiescent point, every gauge and transition event of every simulated trace is compared with "
               "the model's instance state.", "5.18, 11 and 12.9", TECH),
    "C19": sim("Theorems (Coq, Props/C19.v, from the table regenerated from the source on every run, gen/GenTermCtx.v: every way through every exclusive section of "
               "kvElection.mu as operations on the claim, the run's context and the context stored in e.termCancel; 24-state machine, facts checked on all states and "
               "lifted): under every schedule of those sections and of cancellations by the caller of Start, between two sections no context created for a term is live "
               "unless the instance claims leadership, none is out of the library's reach, and a live one belongs to a live run; a section that finds the instance "
               "leading and leaves it leading touches neither context; the context handed to the callback is a child of the term's context. PARTIAL: 'promptly' is "
               "'within the section that ends the term'; what the callback's goroutine observes (1901 at the next instant, 1902 survival beyond the term's end) is decided "
               "by the monitor on every simulated trace, including left-over acquisitions that succeed under the instance's own running term.", "5.19, 11 and 12.9", TECH),
})

NOT_CLAIMED = {}
CLAIMED["C20"] = dict(
    text="Theorems (Coq): (1) in every execution that respects the semantics of sync.Mutex/RWMutex, two accesses by different goroutines made under a common lock "
         "that the writing side holds exclusively are separated by a release of that lock (hence ordered by happens-before); (2) the access table regenerated from "
         "the source on every run - every read/write of a plain field of kvElection, disconnectHandler, natsConnectionMonitor, CircuitBreaker with the locks "
         "certainly held there, over intraprocedural lock regions and call-graph summaries - satisfies that premise for every conflicting pair except on the field "
         "kvElection.ctx (known finding D15, 26 function pairs listed); (3) the regenerated lock-order relation is acyclic. The race detector is run on a "
         "concurrent API hammer in real time as the search for races the table cannot see (captured locals, user objects).",
    design_ref="5.20 and 11.6",
    note="Trusted: Coq kernel (no axioms), the translator's syntactic lock-region analysis (receiver-rooted field chains, no type checker; goroutine bodies, timer "
         "callbacks, exported methods and registered handlers start with no lock), the restriction to the four structs, the Go race detector. Partial by nature: "
         "no executable functional model exhibits a Go memory-model race; the theorem covers the lock discipline only.",
    technique="Coq proof of lockset soundness + computation over the translator-regenerated access table and lock-order relation; Go race detector on a concurrent API hammer",
)

checks = []
for p in props:
    pid = p["id"]
    if pid in CLAIMED:
        c = CLAIMED[pid]
        checks.append({
            "property_id": pid,
            "quick_cmd": "bin/check %s --tier quick" % pid,
            "thorough_cmd": "bin/check %s --tier thorough" % pid,
            "evidence_file": "evidence/%s.json" % pid,
            "replay_cmd_template": "bin/check %s --replay {path}" % pid,
            "engine": "coq+go",
            "level_claimed": {"category": c.get("category", "proof"), "text": c["text"], "design_ref": "DESIGN.md " + c["design_ref"]},
            "level_note": c["note"],
            "technique": c["technique"],
        })

m = {
    "version": 1,
    "setup_cmd": "bin/setup",
    "hooks": {
        "guard": "verif",
        "enable": "go build -tags verif (harness module /verif/harness, replace => /repo)",
        "baseline_off_cmd": "cd /repo && GOPROXY=off go test -mod=mod -vet=off -count=1 -timeout 25m ./...",
        "source_commits": ["69e545b"],
        "add_only": True,
    },
    "engines": [{
        "name": "coq+go",
        "path": "bin/check",
        "serves_properties": sorted(CLAIMED),
        "kind_free_text": "Coq 8.16.1 development (/verif/coq) over definitions regenerated from /repo by /verif/translator, plus hand-written executable "
                          "models tied to the code by a Go correspondence harness (/verif/harness) and an OCaml oracle extracted from the Coq definitions (/verif/oracle)",
    }],
    "checks": checks,
    "notes": "See DESIGN.md (section 11 describes what was built). Fix commits in /repo and known findings are listed in known_findings.txt.",
    "not_applicable": [{"property_id": p["id"], "reason": NOT_CLAIMED.get(p["id"], "not claimed")}
                       for p in props if p["id"] not in CLAIMED],
}
json.dump(m, open(os.path.join(VERIF, "MANIFEST.json"), "w"), indent=1)
print("MANIFEST.json written:", len(checks), "checks")
