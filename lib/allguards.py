"""allguards.py [n] [seed] [families]: run generator families, print every rule violation, alarm counts and the lease-environment statistics (tool)."""
import collections, sys, os
sys.path.insert(0, os.path.dirname(os.path.abspath(__file__)))
import simlib, vlib
n = int(sys.argv[1]) if len(sys.argv) > 1 else 400
seed = int(sys.argv[2]) if len(sys.argv) > 2 else 7
fams = sys.argv[3].split(",") if len(sys.argv) > 3 else simlib.FAMILIES
with vlib.Lock():
    print(simlib.sim_build()); vlib.translate(); print(vlib.build_oracle("full"))
res, sh = simlib.run_sim(fams, seed, n, shards=16)
g = collections.Counter(); a = collections.Counter(); ex = {}
envok = 0; envok_flag = 0; bad = []
for r in res:
    for i, c in r["guards"]:
        g[c] += 1; ex.setdefault(c, (r, i))
    for i, c in r["alarms"]:
        a[c] += 1
    if r["env_first"] == -1:
        envok += 1
        tr = simlib.trace_of(r)
        if any(" flag " in l and l.split()[3] == "1" for l in tr):
            envok_flag += 1
        if not r["guards"] and any(c in (201, 202) for _, c in r["alarms"]):
            bad.append(r["name"])
print(len(res), "scenarios; guards:", dict(g))
print("lease environment holds on", envok, "traces,", envok_flag, "of them with a claim; contradicting the theorem:", bad[:5])
print("alarms:", sorted(a.items()))
for c, (r, i) in ex.items():
    tr = simlib.trace_of(r)
    print("rule", c, r["name"], i, " / ".join(tr[max(0, i - 5):i + 1]))
if os.environ.get("KEEP"):
    print([s["trace"] for s in sh])
else:
    simlib.cleanup(sh)
