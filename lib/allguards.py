"""allguards.py [n] [seed] [families]: run generator families, print every rule violation, alarm counts and the lease-environment statistics (tool)."""
import collections, sys, os
sys.path.insert(0, os.path.dirname(os.path.abspath(__file__)))
import simlib, vlib
n = int(sys.argv[1]) if len(sys.argv) > 1 else 400
seed = int(sys.argv[2]) if len(sys.argv) > 2 else 7
fams = sys.argv[3].split(",") if len(sys.argv) > 3 else simlib.FAMILIES
with vlib.Lock():
    print(simlib.sim_build()); vlib.translate(); print(vlib.build_oracle("full"))
res, sh = simlib.run_sim(fams, seed, n, shards=16)
g = collections.Counter(); a = collections.Counter(); ex = {}
envok = 0; envok_flag = 0; bad = []
for r in res:
    for i, c in r["guards"]:
        g[c] += 1; ex.setdefault(c, (r, i))
    for i, c in r["alarms"]:
        a[c] += 1
    if r["env_first"] == -1:
        envok += 1
        tr = simlib.trace_of(r)
        if any(" flag " in l and l.split()[3] == "1" for l in tr):
            envok_flag += 1
        if not r["guards"] and any(c in (201, 202) for _, c in r["alarms"]):
            bad.append(r["name"])
print(len(res), "scenarios; guards:", dict(g))
print("lease environment holds on", envok, "traces,", envok_flag, "of them with a claim; contradicting the theorem:", bad[:5])
nT = [r for r in res if r.get("envc_first") == -1]
print("of the traces in the fast-store environment,", sum(1 for r in nT if not r["guards"] and r.get("envt_first") != -1), "outside envT (contradiction if > 0)")
print("timed environment holds on", len(nT), "traces;", sum(1 for r in nT if r["env_first"] != -1), "of them outside the untimed environment;",
      "with 201/202:", [r["name"] for r in nT if any(c in (201, 202) for _, c in r["alarms"])][:5])
import collections as _c
why = _c.Counter()
for r in res:
    if r.get("envt_first", -1) not in (-1, None):
        tr = simlib.trace_of(r); i = r["envt_first"]
        why[tr[i].split()[1] if i < len(tr) else "?"] += 1
print("first observation outside the timed environment, by kind:", dict(why))
print("alarms:", sorted(a.items()))
for c, (r, i) in ex.items():
    tr = simlib.trace_of(r)
    print("rule", c, r["name"], i, " / ".join(tr[max(0, i - 5):i + 1]))
if os.environ.get("KEEP"):
    print([s["trace"] for s in sh])
else:
    simlib.cleanup(sh)
