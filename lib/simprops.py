"""Checks of the properties decided on the election model (protocol automaton + monitors in
coq/Sim, proofs in coq/Proofs/Sim*.v, Props/C*.v) tied to the code by simulator traces."""
import json
import os
import re
import time

import simlib
import vlib
from simlib import (ENV_FAULT, ENV_SLOW, ENV_EXT, ENV_TAKEOVER, ENV_CONN, ENV_UNHEALTHY, ENV_WDROP, ENV_MONITOR, ENV_WCLOSE,
                    ENV_CRASH, ENV_FORCED)
from props import Result, prove, oracles

ALARM_TEXT = {
    101: "a store call targets a key other than the instance's own group",
    102: "Create succeeded while a live record existed",
    103: "a created record does not carry the creator's identity",
    104: "an Update succeeded against a revision that was not the key's latest",
    105: "a refresh replaced a version that the refreshing instance did not write with the same identity and token",
    106: "a takeover replaced a record without takeover enabled and strictly higher priority",
    107: "a record was overwritten from an unexpected code path",
    108: "a live record was deleted by an instance that does not own it",
    109: "a Delete was issued outside graceful shutdown",
    201: "two instances of one group report leadership at the same instant",
    202: "an instance reports leadership while the live record does not name it with its current token",
    301: "a leader whose record was replaced/deleted/expired still claimed after H + 2T",
    302: "third consecutive failed refresh completed but the leader kept claiming",
    303: "three failed refreshes took longer than 3H + 3T after the last successful one",
    304: "the demotion callback did not run when a deposed/cut-off leader stepped down",
    401: "ValidateToken returned true although the record never held the caller's id and token during the call",
    402: "ValidateToken returned true for an instance that was not leader",
    403: "ValidateTokenOrDemote returned false but the instance still reports leadership",
    404: "ValidateTokenOrDemote demoted a leader without invoking the demotion callback",
    405: "ValidateTokenOrDemote and ValidateToken disagree",
    501: "an acquisition published a token that had appeared in the record before",
    502: "an acquisition published an empty or unreadable token",
    503: "a refresh republished a different token or identity than the version it replaced",
    504: "the promotion callback received a token other than the term's",
    505: "the promotion callback's token is not the token stored in the instance's record",
    506: "Token()/Status().Token of a leader differ from the token in its record",
    601: "a vacancy was not filled within the bound although a healthy candidate existed",
    701: "a leader lost its claim in fault-free operation",
    702: "the demotion callback ran in fault-free operation without a stop",
    703: "a leader's record lapsed in fault-free operation",
    704: "a leader's record changed owner or token in fault-free operation",
    705: "a second promotion of an instance that already leads",
    801: "promotion callback while the previous term's demotion callback has not run",
    802: "demotion callback without a preceding promotion",
    803: "promotion callback carries a token other than the term's",
    804: "leadership flag and callback counts disagree at a quiescent point",
    805: "number of promotion callbacks differs from the number of terms",
    806: "not leader but promotions and demotions do not balance",
    901: "leadership claimed after the stop call returned",
    902: "promotion callback after the stop call returned",
    903: "a store operation was issued after the stop call returned",
    904: "library goroutines left after all elections were stopped",
    905: "stop call exceeded its time bound",
    906: "panic, or every goroutine blocked (deadlock)",
    907: "hang (watchdog)",
    909: "the instance reports leadership when its stop call returns",
    908: "StopWithContext(DeleteKey) returned while the caller's own record was still live",
    1001: "another instance's live record was replaced without (takeover enabled and strictly higher priority)",
    1002: "a strictly higher-priority takeover-enabled instance did not lead within 3 heartbeat intervals",
    1003: "leadership left the highest-priority instance",
    1101: "the grace mechanism demoted before the grace period had elapsed since the latest disconnect",
    1102: "still leader after the grace period elapsed with no reconnect",
    1103: "reconnect verification kept/dropped leadership against the fresh read",
    1107: "a reconnect notification to a leader was not followed by a fresh read of the record",
    1104: "grace demotion without the demotion callback",
    1105: "panic, or every goroutine blocked (deadlock)",
    1106: "hang (watchdog)",
    1201: "health demotion at a count other than the configured number of consecutive unhealthy ticks",
    1202: "the configured number of consecutive unhealthy ticks was reached but the leader kept claiming",
    1203: "health demotion without the demotion callback",
    1204: "a health check received a context that does not expire within 100 ms",
    1205: "after a health demotion the instance did not continue as follower",
    1301: "unbounded work: too many store calls at one instant",
    1302: "leadership claimed without a preceding successful write of the claimant",
    1303: "leadership claimed while a live record written by another party exists",
    1304: "panic",
    1305: "hang (watchdog)",
    1801: "Status: IsLeader and State disagree",
    1802: "Status: undocumented State",
    1803: "Status of a leader: LeaderID is not its own id",
    1804: "Status of a leader: Token is not the term token",
    1805: "Status of a leader: Revision is not that of its latest successful write",
    1806: "Status after stop: not STOPPED / still leader",
    1807: "is-leader gauge differs from IsLeader() at a quiescent point",
    1808: "state transitions do not chain",
    1809: "IsLeader() and Status().IsLeader disagree at a quiescent point",
    1810: "a follower's LeaderID did not converge to the id in the live record",
    1901: "promotion context cancelled while the term was alive and the callback running",
    1902: "promotion context still live after the term ended",
}

# property -> definition
NOFAULT = {ENV_FAULT, ENV_SLOW, ENV_EXT, ENV_FORCED, ENV_CRASH}

def _mk(fams, codes, env_excl=(), props=None, gen=("GenGuards.v", "GenConfig.v"), code_env=None):
    return dict(fams=fams, codes=set(codes), env_excl=set(env_excl), props=props, gen=list(gen), code_env=code_env or {})


SIM = {
    "C01": _mk(["G1", "G2", "G3", "G4", "G7", "G8", "G9"], range(101, 110)),
    "C02": _mk(["G1", "G6", "G7", "G5"], [201, 202], NOFAULT | {ENV_TAKEOVER}),
    # 9013: a health checker that blocks beyond its deadline delays the refresh tick by as much; the bound of C03 is not claimed then
    "C03": _mk(["G2", "G3", "G8", "G9"], range(301, 305), {9013}),
    "C04": _mk(["G3", "G9", "G2", "G4"], range(401, 406)),
    "C06": _mk(["G8", "G1"], [601]),
    "C11": _mk(["G5", "G7"], range(1101, 1108)),
    "C12": _mk(["G6", "G9"], range(1201, 1206)),
    "C05": _mk(["G1", "G2", "G3", "G4", "G6", "G7", "G9"], range(501, 507)),
    "C07": _mk(["G1", "G7"], range(701, 706), NOFAULT | {ENV_TAKEOVER, ENV_CONN, ENV_UNHEALTHY}),
    "C08": _mk(["G1", "G2", "G3", "G5", "G6", "G7", "G9"], range(801, 807)),
    "C09": _mk(["G7", "G1", "G5"], range(901, 910)),
    "C10": _mk(["G4", "G3"], range(1001, 1004),
               code_env={1002: NOFAULT | {9012, ENV_CONN, ENV_UNHEALTHY}, 1003: NOFAULT | {9012, ENV_CONN, ENV_UNHEALTHY}}),
    # 1001: an illegitimate preemption is a claim next to a live record the claimant did not write "other than by legitimate preemption"
    "C13": _mk(["G3", "G2"], list(range(1301, 1306)) + [1001]),
    "C18": _mk(["G1", "G2", "G4", "G6", "G7"], range(1801, 1811), gen=("GenGuards.v", "GenConfig.v", "GenStatus.v")),
    "C19": _mk(["G1", "G2", "G3", "G5", "G6", "G7"], range(1901, 1903), gen=("GenGuards.v", "GenConfig.v", "GenTermCtx.v")),
}

QUICK_N = 160       # scenarios per family
THOROUGH_N = 6000


def known_list():
    out = []
    p = os.path.join(vlib.VERIF, "known_findings.txt")
    for line in open(p):
        line = line.strip()
        if line.startswith("known:"):
            m = re.match(r"known:\s+property=(\S+)\s+signature=(\S+)\s+(.*)", line)
            if m:
                out.append({"property": m.group(1), "signature": m.group(2), "text": m.group(3)})
    return out


# ---------------------------------------------------------------- signatures
def parse_ev(line):
    f = line.split()
    return int(f[0]), f[1], [int(x) for x in f[2:]]


# 9014: the harness descheduled a library goroutine between two statements; no promptness bound is claimed for such a run
ENV_STALL = 9014
# 9015: the application's Logger took time for a message (a call-out of the library that is slow): no promptness bound either
ENV_SLOWLOG = 9015
PROMPT = {301, 302, 303, 304, 601, 905, 1810, 1002, 1003, 1102, 1103, 1107, 1202, 1203, 1205, 1902}
OVERDUE = {301, 302, 303, 304, 601, 1002, 1003, 1102, 1103, 1107, 1202, 1203, 1205, 1902}


def delete_was_checked(trace, upto, deleter):
    """D5 is the window between StopWithContext's ownership read (a Get issued from recordHeldByOther, site 25, that has
    returned) and its Delete. A Delete that was not preceded by such a read of the deleting instance since its stop call began is a
    different situation."""
    ops = {}
    ok = False
    for l in trace[:upto]:
        f = l.split()
        if f[1] == "api" and f[2] == deleter and f[3] in ("2", "3"):
            ok = False            # a new stop call: the read must belong to it
        elif f[1] == "issue" and f[2] == deleter and f[4] == "3" and f[5] == "25":
            ops[f[3]] = True
        elif f[1] == "ret" and f[2] == deleter and f[3] in ops:
            # the look was taken, whatever it showed (own record, error) - except "no record": since the repair 76b74ee the
            # Delete is not issued then, and one that follows such a read is not the recorded residue of D5
            ok = f[4] != "3"
    return ok


def signature(pid, code, idx, trace):
    """A narrow description of the failing situation: property/code/cause."""
    if code in OVERDUE:
        return "%s/%d/overdue" % (pid, code)
    if code in (201, 202, 701, 702, 704):
        # root cause of an unbacked / doubled / lost claim: the latest event before it that destroyed or replaced a record
        # OF THE SAME KEY (several groups share a bucket)
        issues = {}      # op -> fields of its issue line, index
        keyof = {}       # instance -> key
        for kk, l in enumerate(trace[:idx + 1]):
            g = l.split()
            if len(g) > 8 and g[1] == "issue":
                issues[g[3]] = (g, kk)
            elif len(g) > 3 and g[1] == "instdef":
                keyof[g[2]] = g[3]
        f0 = trace[min(idx, len(trace) - 1)].split()
        keys = []
        if code in (201, 202):
            # clauses about the whole bucket, raised at whatever observation comes next: the keys concerned are those with a
            # claimant the live record does not name (202) or with two claimants (201), reconstructed from the trace
            flag, owner = {}, {}
            for l in trace[:idx + 1]:
                g = l.split()
                if g[1] == "flag":
                    flag[g[2]] = g[3] == "1"
                elif g[1] == "apply" and g[3] == "0" and g[2] in issues:
                    q = issues[g[2]][0]
                    if q[4] in ("1", "2"):
                        owner[q[8]] = q[2]
                    elif q[4] == "4":
                        owner[q[8]] = None
                elif g[1] == "extput":
                    owner[g[2]] = "ext"
                elif g[1] in ("extdel", "expire"):
                    owner[g[2]] = None
            for i2, fl in sorted(flag.items()):
                if fl and i2 in keyof:
                    k2 = keyof[i2]
                    others = [j for j, fj in flag.items() if fj and j != i2 and keyof.get(j) == k2]
                    if (code == 202 and owner.get(k2) != i2) or (code == 201 and others):
                        if k2 not in keys:
                            keys.append(k2)
        elif f0[1] == "apply" and f0[2] in issues:
            keys = [issues[f0[2]][0][8]]
        elif len(f0) > 2 and f0[2] in keyof and f0[1] not in ("expire", "extput", "extdel"):
            keys = [keyof[f0[2]]]
        elif f0[1] in ("expire", "extput", "extdel"):
            keys = [f0[2]]
        if not keys:
            keys = [None]
        # whose claim is judged (70x): the instance of the event, or the claimants of the key at a write
        victims = None
        if code in (701, 702) and f0[1] in ("flag", "demote"):
            victims = [f0[2]]
        elif code == 704 and f0[1] == "apply":
            up = {}
            for l in trace[:idx]:
                g = l.split()
                if g[1] == "flag":
                    up[g[2]] = g[3] == "1"
            victims = [i2 for i2, fl in up.items() if fl and keyof.get(i2) in keys] or None
        sigs = [_record_cause(pid, code, idx, trace, issues, k2, victims) for k2 in keys]
        # several keys concerned: a cause that is not the recorded finding D5 is reported first
        sigs.sort(key=lambda x: x.endswith("after-site7-kind4"))
        return sigs[0]
    try:
        t, kind, a = parse_ev(trace[idx])
    except Exception:
        return "%s/%d/?" % (pid, code)
    return _signature_rest(pid, code, idx, trace, kind, a)


def _record_cause(pid, code, idx, trace, issues, key, victims=None):
    """The latest event before idx that destroyed or replaced a record of `key` (None: any key). With `victims` (the
    instances whose claim is judged): another instance releasing its own record is not what happened to them."""
    def on_key(k2):
        return key is None or k2 == key
    if True:
        for k in range(min(idx, len(trace) - 1), -1, -1):
            f = trace[k].split()
            if f[1] in ("expire", "extput", "extdel"):
                if on_key(f[2]):
                    return "%s/%d/after-%s" % (pid, code, f[1])
                continue
            if f[1] == "apply" and f[3] == "0" and f[2] in issues:
                g, kk = issues[f[2]]
                if not on_key(g[8]):
                    continue
                if g[4] == "4":
                    # whose record did the Delete remove? (the issuer of the latest successful Create/Update of that key before it)
                    deleter, owner = g[2], None
                    for j in range(k - 1, -1, -1):
                        h = trace[j].split()
                        if h[1] == "apply" and h[3] == "0" and h[2] in issues:
                            g2 = issues[h[2]][0]
                            if g2[8] == g[8] and g2[4] in ("1", "2"):
                                owner = g2[2]
                                break
                            if g2[8] == g[8] and g2[4] == "4":
                                owner = "nobody"      # the key had already been vacated
                                break
                        if h[1] == "extput" and h[2] == g[8]:
                            owner = "ext"
                            break
                        if h[1] in ("extdel", "expire") and h[2] == g[8]:
                            owner = "nobody"
                            break
                    if owner == "nobody":
                        continue                      # this Delete removed nothing: look further back
                    if owner == deleter:
                        if victims and deleter not in victims:
                            # somebody else released a record of its own, properly: the instances whose claim is judged lost
                            # theirs earlier (they were claiming next to that record already): look further back
                            continue
                        # the owner released its own record: not the stale-delete situation of D5
                        return "%s/%d/after-own-delete" % (pid, code)
                    if not delete_was_checked(trace, kk, deleter):
                        return "%s/%d/after-unchecked-delete" % (pid, code)
                    return "%s/%d/after-site%s-kind4" % (pid, code, g[5])
                if g[4] == "2" and g[5] == "2":
                    return "%s/%d/after-site2-kind2" % (pid, code)
        return "%s/%d/no-record-event" % (pid, code)


def _signature_rest(pid, code, idx, trace, kind, a):
    cause = kind
    if kind == "apply":
        op = a[0]
        for l in trace[:idx]:
            f = l.split()
            if f[1] == "issue" and int(f[3]) == op:
                cause = "site%s-kind%s" % (f[5], f[4])
                break
        if code == 108:
            # who is deleting: the from-state of the stop call that issued the Delete
            inst = None
            kk = idx
            for j, l in enumerate(trace[:idx]):
                f = l.split()
                if f[1] == "issue" and int(f[3]) == op:
                    inst = f[2]
                    kk = j
            frm = "?"
            for l in trace[:idx]:
                f = l.split()
                if f[1] == "trans" and f[2] == inst and f[4] == "5":
                    frm = f[3]
            cause += "-stopfrom%s" % frm
            if inst is not None and not delete_was_checked(trace, kk, inst):
                cause += "-unchecked"
    elif kind == "flag":
        cause = "flag%d-cause%d" % (a[1], a[2])
    elif kind == "issue":
        cause = "issue-site%d-kind%d" % (a[3], a[2])
    elif kind in ("apiret", "api"):
        cause = "%s-call%d" % (kind, a[1])
    return "%s/%d/%s" % (pid, code, cause)


def status_query():
    """The groups of the regenerated status-writer table that fail group_ok (names the source positions when the C18 table
    theorem no longer checks)."""
    q = os.path.join(vlib.COQ, "StatusQuery.v")
    with open(q, "w") as f:
        f.write("From LE Require Import Base Locks Status GenStatus.\n"
                "Definition bad := Eval vm_compute in map (fun g => (sg_fn g, sg_pos g)) (filter (fun g => negb (group_ok g)) status_groups).\n"
                "Print bad.\nDefinition badl := Eval vm_compute in filter (fun x => match snd x with Some _ => false | None => true end) status_loads.\nPrint badl.\n")
    vlib.run(["make", "-j16", "gen/GenStatus.vo", "Status.vo"], cwd=vlib.COQ, timeout=600)
    rc, out = vlib.run(["coqc", "-Q", ".", "LE", "StatusQuery.v"], cwd=vlib.COQ, timeout=300)
    for junk in ("StatusQuery.v", "StatusQuery.vo", "StatusQuery.glob", ".StatusQuery.aux", "StatusQuery.vos", "StatusQuery.vok"):
        try:
            os.remove(os.path.join(vlib.COQ, junk))
        except OSError:
            pass
    if rc != 0:
        return ""
    txt = " ".join(out.split())
    m = re.findall(r'\("([^"]+)"%?s?t?r?i?n?g?, "([^"]+)"', txt)
    return "; ".join("%s at %s" % x for x in m)


def termctx_query():
    """The paths of the regenerated term-context table that fail path_ok, with their operations."""
    q = os.path.join(vlib.COQ, "TermCtxQuery.v")
    with open(q, "w") as f:
        f.write("From LE Require Import Base TermCtx GenTermCtx.\n"
                "Definition bad := Eval vm_compute in map (fun p => (tp_fn p, tp_pos p, tp_ops p)) (filter (fun p => negb (path_ok p)) term_paths).\n"
                "Print bad.\nDefinition child := Eval vm_compute in promote_ctx_is_term_child.\nPrint child.\n")
    vlib.run(["make", "-j16", "gen/GenTermCtx.vo", "TermCtx.vo"], cwd=vlib.COQ, timeout=600)
    rc, out = vlib.run(["coqc", "-Q", ".", "LE", "TermCtxQuery.v"], cwd=vlib.COQ, timeout=300)
    for junk in ("TermCtxQuery.v", "TermCtxQuery.vo", "TermCtxQuery.glob", ".TermCtxQuery.aux", "TermCtxQuery.vos", "TermCtxQuery.vok"):
        try:
            os.remove(os.path.join(vlib.COQ, junk))
        except OSError:
            pass
    if rc != 0:
        return ""
    txt = " ".join(out.split())
    m = re.search(r"bad = (\[.*?\]) : list", txt)
    c = re.search(r"child = (\w+)", txt)
    return (m.group(1)[:1500] if m else "") + ("; promote_ctx_is_term_child = " + c.group(1) if c else "")


def sim_check(pid, tier, seed, extra_assumptions=()):
    d = SIM[pid]
    if not d.get("props"):
        d["props"] = "Props/%s.v" % pid
    res = Result(pid, tier, seed)
    t0 = time.time()
    with vlib.Lock():
        okb, blog = simlib.sim_build()
        gen_ok = prove(res, d["gen"], d["props"])
        if pid == "C18" and res.tie_broken:
            bad = status_query()
            if bad:
                res.tie_broken.append("status-writer table (gen/GenStatus.v): groups that fail the check of Status.v group_ok: " + bad)
        if pid == "C19" and res.tie_broken:
            bad = termctx_query()
            if bad:
                res.tie_broken.append("term-context table (gen/GenTermCtx.v): paths that fail the check of TermCtx.v path_ok: " + bad)
        flavour = oracles(res, gen_ok)
    if not okb:
        res.tie_broken.append("simulator does not build against /repo: " + blog[-800:])
        return res.finish()
    if not flavour:
        return res.finish()
    n = QUICK_N if tier == "quick" else THOROUGH_N
    if res.tie_broken and tier == "quick":
        n = 1500  # proof or translation broken: larger search
    results, shards = simlib.run_sim(d["fams"], seed, n, shards=8 if tier == "quick" else 16, flavour=flavour)
    # corpus: minimised scenarios that once failed (fixed defects, known findings, seeded changes); always run
    cdir = os.path.join(vlib.VERIF, "corpus")
    cfiles = sorted(f for f in os.listdir(cdir) if f.endswith(".json")) if os.path.isdir(cdir) else []
    ctmp = None
    if cfiles:
        ctmp = os.path.join(vlib.BUILD, "corpus.%d.jsonl" % os.getpid())
        with open(ctmp, "w") as f:
            for c in cfiles:
                sc = json.load(open(os.path.join(cdir, c)))
                sc = sc.get("scenario", sc)
                sc["name"] = "corpus-" + c[:-5]
                sc["family"] = "corpus"
                f.write(json.dumps(sc) + "\n")
        r2, s2 = simlib.run_sim(["G1"], seed, 1, flavour=flavour, scen_in=ctmp)
        for r in r2:
            r["family"] = "corpus"
        results = r2 + results
        shards = shards + s2
    try:
        return _evaluate(pid, d, res, results, tier)
    finally:
        simlib.cleanup(shards)
        if ctmp:
            os.remove(ctmp)


def _evaluate(pid, d, res, results, tier):
    known = [k for k in known_list() if k["property"] == pid]
    seen_known = {}
    viol_sigs = {}
    guard_fail = {}
    n_applicable = 0
    fam_count = {}
    nontrivial = set()
    ev_total = 0
    crashes = 0
    n_lease_env = 0
    n_lease_envT = 0
    for r in results:
        fam_count[r["family"]] = fam_count.get(r["family"], 0) + 1
        ev_total += r["n_events"]
        env = simlib.envset(r)
        if pid == "C02" and r.get("envc_first") == -1:
            # the hypothesis of theorem C02_one_claimant_backed_by_its_record_while_the_store_is_fast holds on this real trace
            n_lease_envT += 1
            if not r["guards"] and (r.get("env_first") != -1 or r.get("envt_first") != -1):
                res.tie_broken.append("an admitted real trace lies in the fast-store environment but outside the environments it is proved to imply "
                                      "(scenario %s): contradicts lemmas envC_envT / envT_env" % r["name"])
        if pid == "C02" and r.get("env_first") == -1:
            # the hypothesis of theorem C02_partial_one_claimant_backed_by_its_record holds on this real trace
            n_lease_env += 1
            if not r["guards"] and any(c in (201, 202) for _, c in r["alarms"]):
                res.tie_broken.append("extracted monitors contradict theorem C02_partial_one_claimant_backed_by_its_record on an admitted trace in its "
                                      "environment (scenario %s): extraction or oracle glue is wrong" % r["name"])
        applicable = not (env & d["env_excl"])
        if applicable:
            n_applicable += 1
        hits = [(i, c) for i, c in r["alarms"] if c in d["codes"] and not (env & d["code_env"].get(c, set()))
                and not ((ENV_STALL in env or ENV_SLOWLOG in env) and c in PROMPT)]
        if r["verdict"] != "ok" and pid in ("C09", "C13", "C11"):
            code = {"C09": 906, "C13": 1304, "C11": 1105}[pid] if r["verdict"] == "crash" else {"C09": 907, "C13": 1305, "C11": 1106}[pid]
            hits.append((max(0, r["n_events"] - 1), code))
            crashes += 1
        if hits and applicable:
            tr = simlib.trace_of(r)
            for i, c in hits[:3]:
                sig = signature(pid, c, i, tr)
                if pid == "C08" and c in (801, 802, 804) and any(gc == 2045 and gi <= i for gi, gc in r["guards"]):
                    # finding D16: the instance was re-elected before the demotion callback it owed had been entered
                    sig = "C08/%d/after-claim-before-owed-demotion" % c
                kf = [k for k in known if k["signature"] == sig]
                if kf:
                    if sig not in seen_known and os.environ.get("VERIF_SAVE_CORPUS"):
                        cp = os.path.join(vlib.VERIF, "corpus", sig.replace("/", "_") + ".json")
                        if not os.path.exists(cp):
                            json.dump({"finding": sig, "what": ALARM_TEXT.get(c), "scenario": simlib.scenario_of(r)}, open(cp, "w"), indent=1)
                    seen_known[sig] = kf[0]["text"]
                elif sig not in viol_sigs:
                    viol_sigs[sig] = (r, i, c, tr)
        gh = [(i, c) for i, c in r["guards"] if c in GUARD_OWNERS.get(pid, ()) and (c not in ENV_GATED_RULES or applicable)]
        # the local rules hold in every environment (lib/allguards.py validates them on all families): not gated
        # a rule the unchanged library is known to break (a recorded finding) is reported as that finding
        kr = {c: sg for c, sg in KNOWN_RULES.get(pid, {}).items() if any(k["signature"] == sg for k in known)}
        for gi, gc in gh:
            if gc in kr:
                seen_known[kr[gc]] = [k["text"] for k in known if k["signature"] == kr[gc]][0]
        gh = [(i, c) for i, c in gh if c not in kr]
        if gh:
            key = gh[0][1]
            if key not in guard_fail:
                guard_fail[key] = (r, gh[0][0], simlib.trace_of(r))
        # non-trivial: the scenario exercised the property's antecedent at least once
        if applicable and r["n_events"] > 30:
            nontrivial.add((r["family"], r["n_events"], len(r["alarms"])))
    for sig, (r, i, c, tr) in list(viol_sigs.items())[:3]:
        lo = max(0, i - 25)
        obj = {"property": pid, "signature": sig, "alarm": c, "what": ALARM_TEXT.get(c, "?"), "scenario": simlib.scenario_of(r),
               "event_index": i, "trace_excerpt": tr[lo:i + 3], "stderr": r["stderr"][-1500:],
               "replay": "bin/check %s --replay <this file>" % pid}
        res.violations.append(("%s [%s] in scenario %s at event %d" % (ALARM_TEXT.get(c, "?"), sig, r["name"], i), obj))
    for key, (r, i, tr) in list(guard_fail.items())[:3]:
        lo = max(0, i - 15)
        res.tie_broken.append("correspondence: the implementation's trace is not admitted by the protocol model (rule %d: %s) in scenario %s at event %d: %s"
                              % (key, RULE_TEXT.get(key, "?"), r["name"], i, " / ".join(tr[lo:i + 1][-6:])))
    for sig, text in seen_known.items():
        res.known.append("%s %s" % (sig, text))
    sample = []
    for r in results[:2]:
        tr = simlib.trace_of(r)
        sample.append({"scenario": simlib.scenario_of(r), "trace_head": tr[:12], "events": len(tr)})
    res.coverage.update({
        "evaluations": len(results),
        "distinct_nontrivial": len(nontrivial),
        "scenarios_in_property_environment": n_applicable,
        "traces_validated_against_impl": len(results),
        "events": ev_total,
        **({"traces_satisfying_the_lease_theorem_hypothesis": n_lease_env, "traces_in_the_fast_store_environment": n_lease_envT} if pid == "C02" else {}),
        "families": fam_count,
        "crashed_or_hung": crashes,
        "rule": "seeded simulator scenarios of the listed generator families (harness/sim/gen.go) run on the real library under testing/synctest; "
                "each trace is replayed by the extracted monitors and protocol automaton; distinct_nontrivial = distinct (family, trace length, "
                "number of environment facts) among the scenarios inside the property's environment with more than 30 observations",
        "samples": sample,
        "exhaustive": False,
    })
    return res.finish()


# rules that are claimed only inside the owning property's environment: 2076 (every term rests on a newer write) fails when the
# acknowledgement of a Create arrives later than the record's life time (a store slower than the property allows)
ENV_GATED_RULES = {2076}
# rules the unchanged library breaks in a recorded finding (known_findings.txt): signature of the finding
KNOWN_RULES = {"C08": {2045: "C08/2045/claim-before-owed-demotion"}}
ALL_STORE_RULES = {2000, 2001, 2002, 2004, 2005, 2006, 2007, 2008, 2009, 2010, 2011, 2012, 2013, 2014, 2020, 2021, 2022, 2023, 2050, 2052, 2060, 2061}
GUARD_OWNERS = {
    "C01": ALL_STORE_RULES, "C05": {2002, 2003, 2004, 2090}, "C10": {2005, 2082}, "C13": {2032, 2006, 2005}, "C09": {2030, 2040, 2041},
    "C03": {2070, 2073, 2080}, "C04": {2081, 2086}, "C12": {2080, 2081, 2084}, "C11": {2083},
    "C08": {2043, 2044, 2045, 2047, 2048}, "C07": {2031, 2070, 2073, 2074, 2075, 2080, 2081, 2082, 2083, 2084, 2085, 2086}, "C02": {2000, 2012, 2014, 2023, 2032, 2031, 2033, 2034, 2070, 2072, 2073, 2074, 2075, 2076},
}
RULE_TEXT = {
    2001: "a store call targets the instance's own group key", 2002: "a Create publishes the issuer's id, priority and a non-empty token",
    2003: "the payload of an acquisition attempt is fresh (never used, token not carried by any other value)",
    2004: "a refresh publishes the issuer's id with a (token, revision) pair it held while claiming",
    2005: "a takeover Update follows the issuer's own successful read, against that revision, with takeover enabled and strictly lower stored priority",
    2006: "Updates are issued only by the heartbeat and the takeover path", 2007: "Delete is issued only by StopWithContext",
    2012: "linearisation points follow the store contract", 2013: "a read returns the live value", 2022: "a non-faulty return reports the applied outcome",
    2030: "a stopped election does not raise the claim", 2031: "the claim is not raised twice", 2032: "the claim follows the claimant's own successful write",
    2040: "a stopped election stays stopped", 2041: "a successful stop leaves the election STOPPED",
    2043: "one promotion callback per term",
    2044: "a demotion callback only when one is owed", 2045: "the claim is raised only when no demotion callback is owed",
    2047: "the demotion callback of a term is entered after its promotion callback", 2048: "a new term starts only when the promotion callbacks of the earlier terms have been entered",
    2000: "observations are in time order", 2008: "store calls are issued by a configured instance", 2014: "the record is deleted only by an instance that does not claim leadership",
    2023: "a store call returns to its caller once", 2033: "the claim is raised at the instant the winning write returns", 2034: "a run whose context has been cancelled does not raise the claim", 2072: "a shutdown drops the claim at the instant it begins", 2073: "the refresh loop is sequential: a new attempt starts only after the previous one was answered or timed out", 2074: "a refresh goes against the latest revision of its term", 2075: "only a claiming instance refreshes, with the token of its running term", 2076: "every term rests on a newer write than the previous one", 2081: "the validation loop gives up the claim only on the strength of a failed or mismatching read issued in the running term", 2080: "the heartbeat-failure path gives up the claim only after a refresh attempt of the running term failed or timed out",
    2086: "the validation loop gives up the claim only on a validation read issued after the running term began that timed out or was answered badly",
    2090: "the payload of a Create or an Update reads the same with both decoders of the library",
    2083: "the connection paths (grace period, verification after a reconnect) give up a claim only after a connection notification",
    2084: "the health path gives up a claim only after an unhealthy result in the running term",
    2085: "an acquisition round never gives up a claim",
    2082: "the watcher gives up the claim only when a readable version of the record names another instance and is newer than the write the term rests on",
    2070: "a leader without health checker that is not shutting down starts its next refresh on time (ticker / per-attempt time-out)",
}


def sim_replay(pid, path):
    obj = json.load(open(path))
    sc = obj.get("scenario")
    if not sc:
        print(json.dumps(obj, indent=1)[:3000])
        return 1
    tmp = os.path.join(vlib.BUILD, "replay.%d.jsonl" % os.getpid())
    with open(tmp, "w") as f:
        f.write(json.dumps(sc) + "\n")
    with vlib.Lock():
        okb, blog = simlib.sim_build()
        vlib.translate()
        ok, log = vlib.build_oracle("full")
        flavour = "full" if ok else "spec"
        if not ok:
            vlib.build_oracle("spec")
    results, shards = simlib.run_sim(["G1"], 1, 1, flavour=flavour, scen_in=tmp)
    rc = 0
    d = SIM[pid]
    for r in results:
        tr = simlib.trace_of(r)
        hits = [(i, c) for i, c in r["alarms"] if c in d["codes"]]
        print("scenario %s: %d observations, verdict %s" % (r["name"], r["n_events"], r["verdict"]))
        for i, c in hits[:10]:
            print("  event %d: %s  [%s]  %s" % (i, ALARM_TEXT.get(c, c), signature(pid, c, i, tr), tr[i] if i < len(tr) else ""))
            rc = 1
        if r["verdict"] != "ok":
            rc = 1
    simlib.cleanup(shards)
    os.remove(tmp)
    print("REPLAY %s: %s" % (pid, "property violated again" if rc else "no violation on this tree"))
    return rc
