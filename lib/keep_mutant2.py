#!/usr/bin/env python3
"""keep_mutant.py <prop> <suffix|-> <confirm-json> <detected: text>  — file a confirmed seeded change under /verif/seeded/."""
import json, os, shutil, sys
prop, suf, confirm, detected = sys.argv[1], sys.argv[2], sys.argv[3], sys.argv[4]
suf = "" if suf == "-" else suf
src = "/tmp/mut2/%s/out" % prop
dst = "/verif/seeded/%s%s" % (prop, suf)
os.makedirs(dst, exist_ok=True)
shutil.copy(os.path.join(src, "patch.diff"), os.path.join(dst, "patch.diff"))
shutil.copy(os.path.join(src, "demo_test.go"), os.path.join(dst, "demo_test.go"))
m = json.load(open(os.path.join(src, "meta.json")))
meta = {
    "property": prop,
    "summary": m.get("summary"),
    "why_it_breaks": m.get("why_it_breaks"),
    "needs_to_manifest": m.get("needs_to_manifest"),
    "demo_path": m.get("demo_path"),
    "demo_run_cmd": m.get("demo_run_cmd"),
    "author": "independent sub-agent given only the property text and a scratch worktree",
    "confirmed_by_me": json.loads(confirm),
    "confirmation_procedure": "lib/confirm_mutant.sh in a scratch worktree: demo passes on the unchanged tree (rc 0), fails with the patch (rc 1), full existing suite passes with the patch (rc 0; one re-run allowed for timing flakes)",
    "detection": detected,
}
json.dump(meta, open(os.path.join(dst, "meta.json"), "w"), indent=1)
print("kept", dst)
