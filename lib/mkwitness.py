"""mkwitness.py <scenario.json> <CoqName> <out.v>: run one scenario on the real library and write its trace as a Coq definition (tool;
the result is committed, and the theorems about it are re-checked by every build)."""
import json, os, sys
sys.path.insert(0, os.path.dirname(os.path.abspath(__file__)))
import simlib, vlib
src, name, out = sys.argv[1:4]
sc = json.load(open(src)); sc = sc.get("scenario", sc)
tmp = os.path.join(vlib.BUILD, "wit.jsonl"); open(tmp, "w").write(json.dumps(sc) + "\n")
with vlib.Lock():
    simlib.sim_build(); vlib.translate(); vlib.build_oracle("full")
res, sh = simlib.run_sim(["G1"], 1, 1, scen_in=tmp)
r = res[0]; tr = simlib.trace_of(r)
kinds = ["instdef", "valdef", "issue", "apply", "ret", "flag", "trans", "promote", "promoteret", "ctxdone", "demote", "demoteret", "health", "healthret",
         "api", "apiret", "status", "quiet", "end", "census", "extput", "extdel", "expire", "wsend", "wrecv", "wdrop", "wclose", "wstop", "log", "connstat",
         "tvfail", "crash", "harnesspanic", "envmark"]
lines = []
for l in tr:
    f = l.split()
    if f[1] not in kinds:
        continue
    lines.append("(%s, decode %d [%s])" % (f[0], kinds.index(f[1]), "; ".join(f[2:])))
print(r["name"], len(lines), "events; alarms", [c for _, c in r["alarms"] if c < 9000], "guards", r["guards"], "env_first", r["env_first"])
with open(out, "w") as f:
    f.write("(* %s — a trace recorded from the real library by the simulator (tool: lib/mkwitness.py; scenario:\n   %s).\n   Non-vacuity witness: the theorems about admitted traces in the lease environment apply to it. *)\n" % (os.path.basename(out), json.dumps(sc)))
    f.write("From LE Require Import Base Ev.\nOpen Scope Z_scope.\nDefinition %s : trace :=\n  [" % name)
    f.write(";\n   ".join(lines))
    f.write("].\n")
simlib.cleanup(sh)
