#!/bin/bash
# reconfirm_tip.sh <prop> <suffix>: move the scratch worktree to /repo's current HEAD and confirm the seeded change there.
P=$1; S=$2
tip=$(git -C /repo rev-parse HEAD)
git -C /tmp/mut/$P/wt checkout -q -- . 2>/dev/null; git -C /tmp/mut/$P/wt clean -fdq 2>/dev/null
git -C /tmp/mut/$P/wt checkout -q --detach $tip || { echo "{\"prop\":\"$P$S\",\"error\":\"no worktree\"}"; exit 1; }
/verif/lib/confirm_mutant.sh $P "$S"
