"""simlib — runs the simulator (harness/sim, real library under testing/synctest) and the
extracted oracle (monitors + protocol automata), and turns the result into violations,
known findings, broken correspondences and evidence."""
import concurrent.futures
import json
import os
import subprocess
import tempfile

import vlib
from vlib import BUILD, VERIF

FAMILIES = ["G1", "G2", "G3", "G4", "G5", "G6", "G7", "G8", "G9"]

# environment facts reported by Run.env_facts
ENV_FAULT, ENV_SLOW, ENV_EXT, ENV_TAKEOVER, ENV_CONN, ENV_UNHEALTHY, ENV_WDROP, ENV_MONITOR, ENV_WCLOSE, ENV_CRASH, ENV_FORCED = \
    9001, 9002, 9003, 9004, 9005, 9006, 9007, 9008, 9009, 9010, 9011


def sim_build():
    """(ok, log). Caller holds vlib.Lock()."""
    ok, log, exe = vlib.go_build("sim", "sim.test", test=True)
    return ok, log


def _run_shard(args):
    fams, seed, n, tag, scen_in = args
    out = os.path.join(BUILD, "sim.%s.trace" % tag)
    scen = os.path.join(BUILD, "sim.%s.scen" % tag)
    res = os.path.join(BUILD, "sim.%s.res" % tag)
    env = dict(os.environ)
    env.update({"SIM_OUT": out, "SIM_SEED": str(seed), "SIM_N": str(n), "SIM_GEN": fams, "SIM_SCEN": scen, "GOMAXPROCS": "1"})
    if scen_in:
        env["SIM_IN"] = scen_in
    exe = os.path.join(BUILD, "sim.test")
    skip = 0
    crashes = []
    for _ in range(200):
        env["SIM_SKIP"] = str(skip)
        p = subprocess.run([exe, "-test.run", "TestSim$", "-test.count=1"], env=env, stdout=subprocess.PIPE, stderr=subprocess.PIPE, text=True)
        if p.returncode == 0:
            break
        # the process died inside a scenario: find it, keep the evidence, resume after it
        last = None
        try:
            with open(out) as f:
                for line in f:
                    if line.startswith("BEGIN "):
                        last = int(line.split()[1])
                    elif line.startswith("END "):
                        last = None
        except OSError:
            pass
        if last is None:
            crashes.append((-1, (p.stdout + p.stderr)[-1500:]))
            break
        crashes.append((last, (p.stderr or p.stdout)[-3000:]))
        skip = last + 1
    return {"tag": tag, "trace": out, "scen": scen, "res": res, "crashes": crashes}


def run_sim(fams, seed, n, shards=8, flavour="full", scen_in=None):
    """Run families `fams` (list) with n scenarios per family, split over shards. Returns list of scenario results:
    dict(name, family, n_events, verdict, alarms [(idx, code)], guards [(idx, code)], shard, index)."""
    jobs = []
    if scen_in:
        jobs.append((",".join(fams), seed, n, "%d.in" % os.getpid(), scen_in))
    else:
        per = max(1, (n + shards - 1) // shards)
        for s in range(shards):
            jobs.append((",".join(fams), seed * 1000 + s, per, "%d.%d" % (os.getpid(), s), None))
    results = []
    with concurrent.futures.ThreadPoolExecutor(max_workers=min(16, len(jobs))) as ex:
        shard_out = list(ex.map(_run_shard, jobs))
    orc = os.path.join(BUILD, "oracle" if flavour == "full" else "oracle_spec", "oracle")

    def orun(so):
        subprocess.run([orc, "sim", so["trace"], so["res"]], stdout=subprocess.PIPE, stderr=subprocess.PIPE)
        return so
    with concurrent.futures.ThreadPoolExecutor(max_workers=min(16, len(jobs))) as ex:
        shard_out = list(ex.map(orun, shard_out))
    for so in shard_out:
        crashed = dict(so["crashes"])
        try:
            lines = open(so["res"]).read().split("\n")
        except OSError:
            lines = []
        for l in lines:
            if not l.startswith("R "):
                continue
            parts = l.split("|")
            hdr = parts[0].split()
            alarms = [tuple(int(x) for x in a.split(":")) for a in parts[1].split()]
            guards = [tuple(int(x) for x in a.split(":")) for a in parts[2].split()] if len(parts) > 2 else []
            idx = int(hdr[1])
            envf = parts[3].split() if len(parts) > 3 else []
            env_first = int(envf[0]) if envf else None
            envt_first = int(envf[1]) if len(envf) > 1 else None
            envc_first = int(envf[2]) if len(envf) > 2 else None
            results.append({"env_first": env_first, "envt_first": envt_first, "envc_first": envc_first, "index": idx, "name": hdr[2], "family": hdr[2].split("-")[0], "n_events": int(hdr[3]), "verdict": hdr[4],
                            "alarms": alarms, "guards": guards, "shard": so, "stderr": crashed.get(idx, "")})
    return results, shard_out


def scenario_of(r):
    with open(r["shard"]["scen"]) as f:
        for k, line in enumerate(f):
            if k == r["index"]:
                return json.loads(line)
    return None


def trace_of(r):
    out = []
    inside = False
    with open(r["shard"]["trace"]) as f:
        for line in f:
            if line.startswith("BEGIN %d " % r["index"]):
                inside = True
                continue
            if inside and (line.startswith("END ") or line.startswith("BEGIN ")):
                break
            if inside and not line.startswith("#") and not line.startswith("HANG"):
                out.append(line.rstrip("\n"))
    return out


def cleanup(shard_out):
    for so in shard_out:
        for k in ("trace", "scen", "res"):
            try:
                os.remove(so[k])
            except OSError:
                pass


def envset(r):
    return set(c for _, c in r["alarms"] if c >= 9000)
